//! Event-session interpreter shared by C03 (event ledger) and C13 (IIN truth): drives an OutstationRig with a
//! generated history, keeps an independent ledger of every recorded event and of every fragment that carried it,
//! and evaluates the clauses of both properties.
use crate::outstation::database::{UpdateInfo, UpdateOptions};
use crate::outstation::ApplicationIin;
use crate::verif::engine::*;
use crate::verif::props::ost::*;
use crate::verif::rig::outstation::*;
use crate::verif::wire::app::{self as ra, func, iin1, iin2, Fragment, WalkErr};
use crate::verif::wire::link as rl;
use proptest::prelude::*;
use serde::{Deserialize, Serialize};
use std::collections::BTreeMap;

#[derive(Clone, Debug, Serialize, Deserialize)]
pub enum ReadKind {
    /// class mask (bit0 = class 1 ..), optional count limit
    Classes(u8, Option<u8>),
    /// all events of a point type in its default variation (gNNv0), optional limit
    Type(u8, Option<u8>),
    /// events of a point type in a specific variation (index into EVENT_VARS[ty])
    Specific(u8, u8),
    /// class 0 (+ classes mask)
    Integrity(u8),
}

#[derive(Clone, Debug, Serialize, Deserialize)]
pub enum Op {
    /// update point #k of the configured points
    Update(u16, u8),
    Read(ReadKind),
    /// right / wrong confirmation of the outstanding solicited fragment (delta added to the sequence when wrong)
    ConfirmSol(bool, u8),
    ConfirmUnsol(bool, u8),
    /// 0 = 1 ms, 1 = confirm timeout - 1, 2 = confirm timeout + 1, 3 = retry delay + 1, 4 = given ms
    Advance(u8, u16),
    /// a different (non-read) request
    Abort(u8),
    EnableUnsol(u8),
    DisableUnsol(u8),
    Reconnect,
    /// a new connection pre-empts the old session: no disconnect is seen by the old session
    #[serde(alias = "Preempt")]
    Preempt,
    // --- C13 only ---
    Broadcast(u8, u8),
    WriteRestart(bool),
    SetAppIin(u8),
}

#[derive(Clone, Debug, Serialize, Deserialize)]
pub struct Case {
    pub points: Vec<PointSpec>,
    pub event_buffer: [u16; 8],
    pub unsolicited: bool,
    pub confirm_null: bool,
    pub retries: Option<u8>,
    pub sol_tx: u16,
    pub unsol_tx: u16,
    pub ops: Vec<Op>,
}

pub const CONFIRM_TIMEOUT: u64 = 100;
pub const RETRY_DELAY: u64 = 150;

#[derive(Clone, Debug)]
struct EvRec {
    rec: Rec,
    class: u8,
    discarded: bool,
    released: bool,
    carried_by: Vec<usize>,
}

#[derive(Clone, Debug)]
struct FragRec {
    unsol: bool,
    seq: u8,
    ids: Vec<u64>,
    bytes: Vec<u8>,
}

#[derive(Clone, Debug)]
struct Outstanding {
    frag: usize,
    seq: u8,
    /// virtual time of the last (re)transmission
    t_tx: u64,
    /// the confirm deadline may have been hit exactly: neither outcome is judged
    uncertain: bool,
    /// identical retransmissions seen so far (unsolicited)
    retries: u32,
    is_null: bool,
    /// a DISABLE_UNSOLICITED that disabled nothing was answered at this time during the wait: the series may have been
    /// cancelled then, or may go on
    maybe_cancelled_at: Option<u64>,
}

pub struct Findings {
    /// C03 clauses
    pub c03: Option<Fail>,
    /// C13 clauses
    pub c13: Option<Fail>,
    /// C14 clauses
    pub c14: Option<Fail>,
    pub nontrivial_c14: bool,
    /// panics / spins / malformed transmissions (reported by both)
    pub common: Option<Fail>,
    pub labels: Vec<String>,
    pub nontrivial_c03: bool,
    pub nontrivial_c13: bool,
}

struct Sess<'a> {
    case: &'a Case,
    rig: OutRig,
    events: BTreeMap<u64, EvRec>,
    frags: Vec<FragRec>,
    out_sol: Option<Outstanding>,
    out_unsol: Option<Outstanding>,
    seq: u8,
    point_serial: BTreeMap<(u8, u16), u32>,
    global_serial: u32,
    f: Findings,
    // C13 model
    overflowed: bool,
    restart: bool,
    broadcast_pending: Option<u8>,
    /// a confirmation that the harness cannot count as accepted was sent while a confirm-mandatory broadcast
    /// indication was pending: the statement does not say whether that ends it, so the bit is not judged
    broadcast_uncertain: bool,
    broadcast_reported: bool,
    /// sequence number of the solicited response built last
    last_sol_seq: Option<u8>,
    /// number of response fragments built before the broadcast received last arrived
    broadcast_since_frag: usize,
    app_iin: u8,
    unconfirmed_carrier_seen: bool,
    /// an unsolicited series ended without confirmation since the last response was judged
    unsol_series_failed: bool,
    cap: [u16; 8],
    /// sequence number of a READ sent while an unsolicited response was outstanding (it is deferred)
    deferred_read_seq: Option<u8>,
    /// the request sent last asks for static data (an integrity READ)
    static_wanted: bool,
    /// the READ sent last names event variations itself (gNNvM with M > 0)
    variation_requested: bool,
    /// sequence number of a DISABLE_UNSOLICITED request whose reply has not been seen yet
    disable_seq: Option<u8>,
    /// the DISABLE_UNSOLICITED answered last took an enabled class away
    disable_had_effect: bool,
    /// confirm modes of broadcasts sent but not yet seen processed (OutstationInformation::broadcast_received)
    sent_broadcasts: std::collections::VecDeque<u8>,
    // --- C14 model ---
    startup_done: bool,
    /// an empty start-up response was confirmed while it was open whether its series was still going on
    startup_maybe_done: bool,
    /// classes enabled for unsolicited reporting (bit0 = class 1), as acknowledged by the outstation
    enabled: u8,
    /// ENABLE/DISABLE requests whose reply has not been seen yet: (seq, enable, mask)
    pending_enable: std::collections::VecDeque<(u8, bool, u8)>,
    /// when the last data-bearing unsolicited series ended without confirmation
    unsol_failed_at: Option<u64>,
    /// until then it is unknown whether a retry delay is running (confirm sent exactly at the deadline)
    delay_uncertain_until: Option<u64>,
    last_unsol_seq: Option<u8>,
}

fn label(f: &mut Findings, l: &str) {
    if !f.labels.iter().any(|x| x == l) {
        f.labels.push(l.to_string());
    }
}

impl<'a> Sess<'a> {
    fn fail03(&mut self, clause: &str, detail: String) {
        if self.f.c03.is_none() {
            self.f.c03 = Some(Fail::new(clause, detail));
        }
    }
    fn fail13(&mut self, clause: &str, detail: String) {
        if self.f.c13.is_none() {
            self.f.c13 = Some(Fail::new(clause, detail));
        }
    }
    fn fail14(&mut self, clause: &str, detail: String) {
        if self.f.c14.is_none() {
            self.f.c14 = Some(Fail::new(clause, detail));
        }
    }
    fn failed(&self) -> bool {
        self.f.c03.is_some() || self.f.common.is_some() || self.rig.task_failure.is_some()
    }

    fn next_seq(&mut self) -> u8 {
        let s = self.seq;
        self.seq = (self.seq + 1) & 0x0F;
        s
    }

    fn live(&self, id: u64) -> bool {
        self.events
            .get(&id)
            .map(|e| !e.discarded && !e.released)
            .unwrap_or(false)
    }

    fn count_live_of_type(&self, ty: u8) -> usize {
        self.events
            .values()
            .filter(|e| e.rec.ty == ty && !e.discarded && !e.released)
            .count()
    }

    fn do_update(&mut self, k: u16, flags_extra: u8) {
        if self.case.points.is_empty() {
            return;
        }
        let p = self.case.points[(k as usize * self.case.points.len()) >> 16].clone();
        let ps = self.point_serial.entry((p.ty, p.index)).or_insert(0);
        *ps += 1;
        let ps = *ps;
        self.global_serial += 1;
        let mut rec = unique_rec(
            p.ty,
            p.index,
            ps,
            self.global_serial,
            flags_extra ^ (ps as u8),
        );
        // octet strings of 90..121 octets now and then: two of them fill a 249-octet fragment, so that event series of
        // several fragments occur with the handful of events a history holds
        if p.ty == 7 && flags_extra & 0x18 == 0x18 {
            let len = 90 + (flags_extra & 0x07) as usize * 4 + (ps as usize % 4);
            while rec.bytes.len() < len {
                rec.bytes
                    .push((rec.bytes.len() as u8).wrapping_mul(7) ^ (ps as u8));
            }
            label(&mut self.f, "long_octet_string_event");
        }
        // event times are what the application says they are: not necessarily increasing (a late report of an older
        // change). One update in four carries an earlier time, by up to 63 ms or by up to ~95 s (below and above the 16-bit
        // span of a relative-time variation)
        if let Some((t, sync)) = rec.time {
            let back = match flags_extra & 0xC0 {
                0xC0 => (flags_extra & 0x3F) as u64 * 1500,
                0x80 if flags_extra & 0x20 != 0 => (flags_extra & 0x1F) as u64 + 1,
                _ => 0,
            };
            if back > 0 {
                rec.time = Some((t.saturating_sub(back), sync));
                label(&mut self.f, "event_time_earlier_than_previous");
            }
        }
        let info = self
            .rig
            .db(|db| update_point(db, &rec, UpdateOptions::detect_event()));
        match info {
            UpdateInfo::Created(id) => {
                self.events.insert(
                    id,
                    EvRec {
                        rec,
                        class: p.class,
                        discarded: false,
                        released: false,
                        carried_by: vec![],
                    },
                );
            }
            UpdateInfo::Overflow { created, discarded } => {
                label(&mut self.f, "overflow");
                self.f.nontrivial_c03 = true;
                let in_flight = self.in_flight_ids();
                if in_flight.contains(&discarded) {
                    label(&mut self.f, "overflow_discards_in_flight_event");
                    self.f.nontrivial_c13 = true;
                }
                match self.events.get_mut(&discarded) {
                    Some(e) if !e.discarded && !e.released => e.discarded = true,
                    _ => {
                        let d = format!("update reports event {discarded} as discarded by overflow, but the ledger does not hold it as a live event");
                        self.fail03("L3-discarded-unknown-event", d);
                    }
                }
                self.events.insert(
                    created,
                    EvRec {
                        rec,
                        class: p.class,
                        discarded: false,
                        released: false,
                        carried_by: vec![],
                    },
                );
                self.overflowed = true;
            }
            UpdateInfo::NoEvent | UpdateInfo::NoPoint => {}
        }
    }

    fn in_flight_ids(&self) -> Vec<u64> {
        let mut v = vec![];
        for o in [&self.out_sol, &self.out_unsol].into_iter().flatten() {
            v.extend(self.frags[o.frag].ids.iter().copied());
        }
        v
    }

    /// match one event object on the wire to a live recorded event
    fn match_event(
        &self,
        g: u8,
        v: u8,
        index: u32,
        data: &[u8],
        cto: Option<(u64, bool)>,
        taken: &[u64],
    ) -> Result<u64, String> {
        let ty = match EVENT_GROUP.iter().position(|x| *x == g) {
            Some(t) => t as u8,
            None => {
                return Err(format!(
                    "g{g}v{v} is not an event object of a configured type"
                ))
            }
        };
        let mut why = String::from("no recorded event of that point");
        for (id, e) in self.events.iter() {
            if e.rec.ty != ty
                || e.rec.index as u32 != index
                || e.discarded
                || e.released
                || taken.contains(id)
            {
                continue;
            }
            if ty == 7 {
                if data == &e.rec.bytes[..] {
                    return Ok(*id);
                }
                why = "octet string content differs from every live event of the point".into();
                continue;
            }
            let m = match ra::decode_meas(g, v, data) {
                Some(m) => m,
                None => return Err(format!("g{g}v{v} is not decodable as a measurement")),
            };
            if m.flags != Some(e.rec.flags) {
                why = format!(
                    "flags {:?} differ from recorded {:#04x}",
                    m.flags, e.rec.flags
                );
                continue;
            }
            let val_ok = match m.val {
                ra::Val::Bool(b) => (e.rec.value != 0.0) == b,
                ra::Val::Dbl(d) => e.rec.value as u8 == d,
                ra::Val::U32(x) => e.rec.value as u32 == x,
                ra::Val::F64(x) => e.rec.value == x,
                ra::Val::F32(x) => (e.rec.value as f32) == x,
                ra::Val::None => false,
            };
            if !val_ok {
                why = format!("value {:?} differs from recorded {}", m.val, e.rec.value);
                continue;
            }
            if let Some(t) = m.time {
                let abs = if m.relative_time {
                    match cto {
                        Some((base, sync)) => {
                            if Some(sync) != e.rec.time.map(|x| x.1) {
                                why = "common time of occurrence has the wrong synchronisation quality".into();
                                continue;
                            }
                            base + t
                        }
                        None => {
                            return Err(
                                "relative-time event without a preceding common time of occurrence"
                                    .into(),
                            )
                        }
                    }
                } else {
                    t
                };
                if Some(abs) != e.rec.time.map(|x| x.0) {
                    why = format!("time {} differs from recorded {:?}", abs, e.rec.time);
                    continue;
                }
            }
            return Ok(*id);
        }
        Err(why)
    }

    /// process everything the outstation transmitted since the last call
    fn handle_tx(&mut self, t: Tx) {
        if std::env::var("VERIF_TRACE").is_ok() {
            println!("  [tx @{}] {:02x?}", self.rig.now_ms(), t);
        }
        match t {
            Tx::Link { .. } => {}
            Tx::Garbage { why, .. } => {
                if self.f.common.is_none() {
                    self.f.common = Some(Fail::new("malformed-transmission", why));
                }
            }
            Tx::Fragment { bytes, t, .. } => self.on_fragment(bytes, t),
        }
    }

    /// hand over queued transmissions up to and including the first fragment for which `stop` holds
    fn drain_tx_until(
        &mut self,
        tx: &mut std::collections::VecDeque<Tx>,
        stop: impl Fn(&[u8]) -> bool,
    ) {
        let pos = tx.iter().position(|t| match t {
            Tx::Fragment { bytes, .. } => stop(bytes),
            _ => false,
        });
        if let Some(pos) = pos {
            for _ in 0..=pos {
                let t = tx.pop_front().unwrap();
                self.handle_tx(t);
            }
        }
    }

    fn on_fragment(&mut self, bytes: Vec<u8>, t: u64) {
        let f = match Fragment::parse(&bytes) {
            Some(f) => f,
            None => {
                self.fail03("unparsable-response", format!("{:02x?}", bytes));
                return;
            }
        };
        let unsol = f.func == func::UNSOLICITED_RESPONSE;
        // re-sent fragments (echo of the last solicited response, unsolicited retry) are C05's business
        if unsol {
            if let Some(o) = &mut self.out_unsol {
                if self.frags[o.frag].bytes == bytes {
                    // U4: an unchanged retry, after the confirm timeout, at most the configured number of times
                    let early = t.saturating_sub(o.t_tx) < CONFIRM_TIMEOUT;
                    o.retries += 1;
                    let (retries, is_null, seq) = (o.retries, o.is_null, o.seq);
                    o.t_tx = t;
                    if o.maybe_cancelled_at.take().is_some() {
                        // the series goes on
                        o.uncertain = false;
                    }
                    label(&mut self.f, "unsol_retry");
                    if !is_null {
                        label(&mut self.f, "data_series_retried");
                        self.f.nontrivial_c14 = true;
                    }
                    if early {
                        self.fail14(
                            "U4-retry-before-timeout",
                            format!(
                                "unsolicited seq {seq} re-sent before its confirm timeout expired"
                            ),
                        );
                    }
                    if is_null {
                        self.fail14("U1-null-response-not-regenerated", format!("the empty start-up unsolicited response seq {seq} was re-sent unchanged instead of with a fresh sequence number"));
                    }
                    if let Some(max) = self.case.retries {
                        if retries > max as u32 {
                            self.fail14("U4-too-many-retries", format!("unsolicited seq {seq} re-sent {retries} times, configured maximum {max}"));
                        }
                    }
                    return;
                }
            }
        } else if let Some(o) = &mut self.out_sol {
            if self.frags[o.frag].bytes == bytes {
                o.t_tx = t;
                return;
            }
        }
        let headers = match f.headers() {
            Ok(h) => h,
            Err(WalkErr::Undefined(..)) => vec![],
            Err(e) => {
                self.fail03(
                    "unparsable-response",
                    format!(
                        "reference walker: {:?} {:02x?}",
                        e,
                        &bytes[..bytes.len().min(64)]
                    ),
                );
                return;
            }
        };
        let no = self.frags.len();
        let mut ids: Vec<u64> = vec![];
        let mut cto: Option<(u64, bool)> = None;
        for h in &headers {
            if h.g == 51 && (h.v == 1 || h.v == 2) {
                if let Some(o) = h.objects.first() {
                    cto = Some((ra::rd_u48(&o.data), h.v == 1));
                }
                continue;
            }
            if !ra::is_event_group(h.g) {
                // static data in a solicited response although the request being answered (the READ sent last, which
                // supersedes every earlier one) asked for none: left-overs of a superseded or abandoned READ
                if !unsol
                    && !self.static_wanted
                    && matches!(h.g, 1 | 3 | 10 | 20 | 21 | 30 | 40 | 110)
                    && !h.objects.is_empty()
                {
                    self.fail14(
                        "U7-response-carries-objects-nobody-asked-for",
                        format!("fragment #{no} (solicited) carries {} objects of g{}v{} although the request it answers asks for no static data", h.objects.len(), h.g, h.v),
                    );
                }
                continue;
            }
            for o in &h.objects {
                match self.match_event(h.g, h.v, o.index.unwrap_or(0), &o.data, cto, &ids) {
                    Ok(id) => {
                        // "with exactly the ... time they were recorded with": unless the master asked for a variation
                        // itself, an event travels in the variation configured for its point - a variation an earlier,
                        // unconfirmed READ had asked for must not stick to it
                        if h.g != 111 && (unsol || !self.variation_requested) {
                            let configured = self.events.get(&id).and_then(|e| {
                                self.case
                                    .points
                                    .iter()
                                    .find(|p| p.ty == e.rec.ty && p.index == e.rec.index)
                                    .map(|p| p.evar)
                            });
                            if let Some(cv) = configured {
                                if cv != h.v {
                                    self.fail03(
                                        "L5-event-not-in-its-configured-variation",
                                        format!("fragment #{no} ({}) reports event {id} as g{}v{} although its point is configured for variation {cv} and the request names no variation", if unsol { "unsolicited" } else { "solicited" }, h.g, h.v),
                                    );
                                }
                            }
                        }
                        if ids.contains(&id) {
                            self.fail03(
                                "L3-event-twice-in-one-fragment",
                                format!("event {id} appears twice in fragment #{no}"),
                            );
                        }
                        if let Some(last) = ids.last() {
                            if id < *last {
                                self.fail03("L4-oldest-first", format!("fragment #{no} reports event {id} after the younger event {last}"));
                            }
                        }
                        ids.push(id);
                    }
                    Err(why) => {
                        let d = format!(
                            "fragment #{no} ({}) carries g{}v{} index {:?} data {:02x?}: {why}",
                            if unsol { "unsolicited" } else { "solicited" },
                            h.g,
                            h.v,
                            o.index,
                            o.data
                        );
                        self.fail03("L3/L5-event-object-matches-no-live-record", d);
                    }
                }
            }
        }
        for id in &ids {
            if let Some(e) = self.events.get_mut(id) {
                e.carried_by.push(no);
            }
        }
        self.frags.push(FragRec {
            unsol,
            seq: f.seq,
            ids: ids.clone(),
            bytes: bytes.clone(),
        });
        // a newly built response of one kind ends the previous series of that kind; the answer to a READ that
        // had been deferred behind an unsolicited response shows that this unsolicited series is over as well
        self.expire_at(t);
        if !unsol {
            self.last_sol_seq = Some(f.seq);
        }
        if unsol {
            self.judge_new_unsolicited(&f, &ids, t);
        } else if f.fir {
            if let Some(pos) = self.pending_enable.iter().position(|x| x.0 == f.seq) {
                let (_, enable, mask) = self.pending_enable.remove(pos).unwrap();
                let rejected = f.iin.map(|x| x.1 & 0x07 != 0).unwrap_or(true);
                if !rejected {
                    if enable {
                        self.enabled |= mask;
                    } else {
                        self.disable_had_effect = self.enabled & mask != 0;
                        self.enabled &= !mask;
                    }
                }
            }
            // U7: a READ received during the unsolicited confirm wait is answered only when the series has ended
            if self.deferred_read_seq == Some(f.seq) {
                if let Some(o) = &self.out_unsol {
                    if !o.uncertain && t.saturating_sub(o.t_tx) < CONFIRM_TIMEOUT {
                        self.fail14("U7-read-answered-during-unsolicited-wait", format!("READ seq {} was answered at t={t} while unsolicited seq {} (sent at {}) was still awaiting its confirmation", f.seq, o.seq, o.t_tx));
                    }
                }
            }
        }
        if unsol {
            if let Some(o) = self.out_unsol.take() {
                if !self.frags[o.frag].ids.is_empty() {
                    self.unconfirmed_carrier_seen = true;
                    self.unsol_series_failed = true;
                }
            }
        } else {
            if let Some(o) = self.out_sol.take() {
                self.unconfirmed_carrier_seen |= !self.frags[o.frag].ids.is_empty();
            }
            if self.deferred_read_seq == Some(f.seq) && f.fir {
                self.deferred_read_seq = None;
                if let Some(o) = self.out_unsol.take() {
                    label(&mut self.f, "deferred_read_answered");
                    label(&mut self.f, "deferred_read");
                    self.f.nontrivial_c14 = true;
                    if !o.is_null {
                        // the series was given up (timed out) in favour of the deferred READ
                        self.unsol_failed_at = Some(o.maybe_cancelled_at.unwrap_or(t));
                    }
                    if !self.frags[o.frag].ids.is_empty() {
                        self.unconfirmed_carrier_seen = true;
                        self.unsol_series_failed = true;
                    }
                }
            }
        }
        // a solicited reply produced while an unsolicited response awaits its confirmation is sent from inside that
        // wait: the outstation does not wait for a confirmation of the reply even if it asked for one
        let built_in_unsol_wait = !unsol && self.out_unsol.is_some();
        // C13: judge the indications of this newly built response
        self.judge_iin(&f, no);
        // the reply to DISABLE_UNSOLICITED is built while the unsolicited response is still awaiting its confirmation;
        // the series is cancelled right after it
        if !unsol && self.disable_seq == Some(f.seq) && f.fir {
            self.disable_seq = None;
            self.disable_answered();
        }
        if unsol {
            self.out_unsol = Some(Outstanding {
                frag: no,
                seq: f.seq,
                t_tx: t,
                uncertain: false,
                retries: 0,
                is_null: f.objects.is_empty(),
                maybe_cancelled_at: None,
            });
        } else if f.con {
            self.out_sol = Some(Outstanding {
                frag: no,
                seq: f.seq,
                t_tx: t,
                uncertain: built_in_unsol_wait,
                retries: 0,
                is_null: false,
                maybe_cancelled_at: None,
            });
        }
    }

    /// C14 clauses for a newly built unsolicited response (called after the previous one was expired by time)
    fn judge_new_unsolicited(&mut self, f: &Fragment, ids: &[u64], t: u64) {
        let is_null = f.objects.is_empty();
        if let Some(o) = self.out_unsol.clone() {
            // the previous response is neither confirmed nor (by time) exhausted
            if let Some(tc) = o.maybe_cancelled_at {
                // the series was cancelled by the DISABLE_UNSOLICITED after all
                if !o.is_null {
                    self.unsol_failed_at = Some(tc);
                }
            } else if !o.uncertain {
                self.fail14(
                    "U3-new-unsolicited-while-previous-outstanding",
                    format!("unsolicited seq {} sent at t={t} although seq {} (last sent at {}) was neither confirmed nor timed out", f.seq, o.seq, o.t_tx),
                );
            } else if !o.is_null && !self.frags[o.frag].ids.is_empty() {
                // the old series ends at this very instant
                self.unsol_failed_at = Some(t);
            }
            if o.seq == f.seq {
                self.fail14(
                    "U4-retry-not-identical",
                    format!(
                        "unsolicited sequence number {} re-used with different content",
                        f.seq
                    ),
                );
            }
        }
        if !self.startup_done && self.startup_maybe_done {
            // what comes next shows whether that confirmation counted
            self.startup_maybe_done = false;
            self.startup_done = !is_null;
        }
        if !self.startup_done && !is_null {
            self.fail14("U1-data-before-null-confirmed", format!("unsolicited seq {} carries objects although no empty start-up response has been confirmed yet", f.seq));
        }
        if let Some(ls) = self.last_unsol_seq {
            if f.seq != (ls + 1) & 0x0F {
                self.fail14(
                    "U1-sequence-not-fresh",
                    format!("new unsolicited response uses seq {} after {}", f.seq, ls),
                );
            }
        }
        self.last_unsol_seq = Some(f.seq);
        for id in ids {
            let class = self.events.get(id).map(|e| e.class).unwrap_or(0);
            if class == 0 || self.enabled & (1 << (class - 1)) == 0 {
                self.fail14("U2/U6-class-not-enabled", format!("unsolicited seq {} carries event {id} of class {class}, enabled mask {:#05b}", f.seq, self.enabled));
            }
        }
        if !is_null {
            if let Some(tf) = self.unsol_failed_at {
                if t < tf + RETRY_DELAY {
                    self.fail14("U5-retry-delay", format!("a new unsolicited series started at t={t}, only {} ms after the previous one failed (retry delay {RETRY_DELAY})", t - tf));
                }
            }
        }
    }

    /// U8: nothing stands in the way of an unsolicited response, so one must be outstanding
    fn check_progress(&mut self) {
        if !self.case.unsolicited
            || !self.startup_done
            || !self.rig.connected()
            || self.out_unsol.is_some()
            || self.out_sol.is_some()
            || self.deferred_read_seq.is_some()
        {
            return;
        }
        if !self.pending_enable.is_empty() {
            return;
        }
        let now = self.rig.now_ms();
        if let Some(tf) = self.unsol_failed_at {
            if now <= tf + RETRY_DELAY {
                return;
            }
        }
        if let Some(tu) = self.delay_uncertain_until {
            if now <= tu {
                return;
            }
        }
        let waiting: Vec<u64> = self
            .events
            .iter()
            .filter(|(_, e)| {
                !e.discarded
                    && !e.released
                    && e.class >= 1
                    && self.enabled & (1 << (e.class - 1)) != 0
            })
            .map(|(id, _)| *id)
            .collect();
        if !waiting.is_empty() {
            self.fail14(
                "U8-no-unsolicited-progress",
                format!("at t={now}: events {:?} of enabled classes (mask {:#05b}) are buffered, nothing is outstanding and no retry delay is pending, yet no unsolicited response was sent", waiting, self.enabled),
            );
        }
    }

    fn judge_iin(&mut self, f: &Fragment, no: usize) {
        let (i1, i2) = match f.iin {
            Some(x) => x,
            None => return,
        };
        // events that are part of this response or of a response still awaiting confirmation
        let mut in_flight: Vec<u64> = vec![];
        // events of a response whose confirmation deadline is being hit at this very instant: either view is accepted
        let mut dont_care: Vec<u64> = vec![];
        for o in [&self.out_sol, &self.out_unsol].into_iter().flatten() {
            if o.uncertain {
                dont_care.extend(self.frags[o.frag].ids.iter().copied());
            } else {
                in_flight.extend(self.frags[o.frag].ids.iter().copied());
            }
        }
        in_flight.extend(self.frags[no].ids.iter().copied());
        for (class, bit) in [(1u8, iin1::CLASS_1), (2, iin1::CLASS_2), (3, iin1::CLASS_3)] {
            let live = |id: &u64, e: &EvRec| {
                e.class == class && !e.discarded && !e.released && !in_flight.contains(id)
            };
            let sure = self
                .events
                .iter()
                .any(|(id, e)| live(id, e) && !dont_care.contains(id));
            let maybe = self
                .events
                .iter()
                .any(|(id, e)| live(id, e) && dont_care.contains(id));
            if !sure && maybe {
                continue;
            }
            let expect = sure;
            let got = i1 & bit != 0;
            if expect != got {
                let d = format!(
                    "response #{no} (seq {}, {}) reports CLASS_{class}_EVENTS={got}, but the buffer {} events of that class outside responses awaiting confirmation",
                    f.seq, if f.func == func::UNSOLICITED_RESPONSE { "unsolicited" } else { "solicited" }, if expect { "holds" } else { "holds no" }
                );
                let sig = format!(
                    "C13 class-bit expected={expect} after_failed_unsol_series={}",
                    self.unsol_series_failed
                );
                if self.f.c13.is_none() {
                    self.f.c13 = Some(Fail::new("I-class-events-available", d).with_sig(sig));
                }
            }
        }
        if self.unsol_series_failed {
            label(&mut self.f, "response_after_failed_unsol_series");
            self.f.nontrivial_c13 = true;
        }
        let got_ovf = i2 & iin2::EVENT_BUFFER_OVERFLOW != 0;
        if self.overflowed && !got_ovf {
            // C03: an event may only be displaced by an overflow that is reported
            self.fail03("L7-overflow-not-reported", format!("events were discarded by an overflow, but response #{no} does not report EVENT_BUFFER_OVERFLOW"));
        }
        if got_ovf != self.overflowed {
            self.fail13(
                "I-overflow",
                format!(
                    "response #{no} reports EVENT_BUFFER_OVERFLOW={got_ovf}, model says {}",
                    self.overflowed
                ),
            );
        }
        if (i1 & iin1::RESTART != 0) != self.restart {
            self.fail13(
                "I-restart",
                format!(
                    "response #{no} reports RESTART={}, model says {}",
                    i1 & iin1::RESTART != 0,
                    self.restart
                ),
            );
        }
        let got_b = i1 & iin1::BROADCAST != 0;
        if self.broadcast_uncertain {
            if !got_b {
                self.broadcast_pending = None;
                self.broadcast_uncertain = false;
            }
        } else if got_b != self.broadcast_pending.is_some() {
            self.fail13(
                "I-broadcast",
                format!(
                    "response #{no} reports BROADCAST={got_b}, model says pending={:?}",
                    self.broadcast_pending
                ),
            );
        }
        if let Some(mode) = self.broadcast_pending {
            // reported: cleared unless confirmation is mandatory
            if mode != 1 {
                self.broadcast_pending = None;
            } else if got_b {
                self.broadcast_reported = true;
            }
        }
        let app = self.app_iin;
        for (bit, mask, name) in [
            (0x01u8, iin1::NEED_TIME, "NEED_TIME"),
            (0x02, iin1::LOCAL_CONTROL, "LOCAL_CONTROL"),
            (0x04, iin1::DEVICE_TROUBLE, "DEVICE_TROUBLE"),
        ] {
            if (i1 & mask != 0) != (app & bit != 0) {
                self.fail13(
                    "I-application-bits",
                    format!(
                        "response #{no}: {name}={} but the application says {}",
                        i1 & mask != 0,
                        app & bit != 0
                    ),
                );
            }
        }
        if (i2 & iin2::CONFIG_CORRUPT != 0) != (app & 0x08 != 0) {
            self.fail13(
                "I-application-bits",
                format!(
                    "response #{no}: CONFIG_CORRUPT={} but the application says {}",
                    i2 & iin2::CONFIG_CORRUPT != 0,
                    app & 0x08 != 0
                ),
            );
        }
    }

    /// evaluate the application callbacks recorded since the last call.
    /// `confirmed` = the fragment for which the harness has just sent a matching confirmation (None = no bracket allowed)
    ///
    /// Callbacks and transmissions are evaluated in the order in which the outstation produced them: the
    /// enter_*_confirm_wait callbacks directly follow the transmission of the fragment they name, which places
    /// every confirmable fragment relative to the other callbacks (a request that aborts a solicited series is
    /// kept and processed only after a new unsolicited response may have gone out).
    fn process(&mut self, confirmed: Option<(usize, bool)>) {
        let log = self.rig.shared.take_log();
        let mut tx: std::collections::VecDeque<Tx> = self.rig.take_tx().into();
        let mut in_bracket = false;
        let mut brackets = 0;
        let mut cleared_now: Vec<u64> = vec![];
        for (_, cb) in log {
            if std::env::var("VERIF_TRACE").is_ok() {
                println!("  [cb] {:?}", cb);
            }
            match cb {
                Cb::EnterUnsolConfirmWait(seq) => {
                    self.drain_tx_until(&mut tx, |b| {
                        b.len() >= 2 && b[1] == func::UNSOLICITED_RESPONSE && b[0] & 0x0F == seq
                    });
                }
                Cb::EnterSolConfirmWait(seq) => {
                    self.drain_tx_until(&mut tx, |b| {
                        b.len() >= 2
                            && b[1] == func::RESPONSE
                            && b[0] & 0x0F == seq
                            && b[0] & 0x20 != 0
                    });
                }
                Cb::Broadcast(function, action) => {
                    if let Some(mode) = self.sent_broadcasts.pop_front() {
                        // "... or, for confirm-mandatory broadcasts, confirmed": a confirm-mandatory broadcast that has
                        // not been confirmed keeps its claim when a broadcast asking for less arrives; the newcomer
                        // still has to be reported by a response sent from now on
                        let keep_mandatory = self.broadcast_pending == Some(1) && mode != 1;
                        if keep_mandatory {
                            // (if it is uncertain whether the mandatory one was confirmed, it stays uncertain)
                            label(&mut self.f, "weaker_broadcast_while_mandatory_pending");
                        } else {
                            self.broadcast_pending = Some(mode);
                            self.broadcast_uncertain = false;
                        }
                        self.broadcast_reported = false;
                        self.broadcast_since_frag = self.frags.len();
                    }
                    if function == "DisableUnsolicited" && action == "Processed" {
                        // DISABLE_UNSOLICITED stops unsolicited reporting however it is addressed. A broadcast has no
                        // reply, so its effect is placed where the outstation reports having processed it: from here on
                        // nothing is enabled and a series that was awaiting its confirmation is over (exactly what the
                        // addressed request does, start-up responses included); a later retransmission of that series is
                        // judged as a new unsolicited response
                        label(&mut self.f, "broadcast_disable");
                        self.disable_had_effect = self.enabled != 0;
                        self.enabled = 0;
                        self.pending_enable.retain(|x| !x.1);
                        self.disable_answered();
                    }
                }
                Cb::BeginConfirm => {
                    in_bracket = true;
                    brackets += 1;
                    cleared_now.clear();
                    match confirmed {
                        Some(_) if brackets == 1 => {}
                        Some((_, true)) => {}
                        _ => {
                            self.fail03("L1-release-without-confirmation", "the application saw begin_confirm although no matching confirmation for an outstanding response had been sent".to_string());
                        }
                    }
                }
                Cb::EventCleared(id) => {
                    if !in_bracket {
                        self.fail03(
                            "L1-release-outside-bracket",
                            format!("event_cleared({id}) outside begin_confirm/end_confirm"),
                        );
                    }
                    let carried = confirmed
                        .map(|(f, _)| self.frags[f].ids.contains(&id))
                        .unwrap_or(false);
                    let (known, released, discarded) = match self.events.get(&id) {
                        Some(e) => (true, e.released, e.discarded),
                        None => (false, false, false),
                    };
                    if !known {
                        self.fail03(
                            "L3-cleared-unknown-event",
                            format!("event_cleared({id}) for an id never reported by an update"),
                        );
                    } else if released {
                        self.fail03(
                            "L2-released-twice",
                            format!("event {id} released a second time"),
                        );
                    } else if !carried {
                        let last = self.events[&id].carried_by.last().copied();
                        let what = match last {
                            None => "was never transmitted".to_string(),
                            Some(k) => format!("was last carried by {} fragment #{k} (seq {}), which is not the response being confirmed", if self.frags[k].unsol { "unsolicited" } else { "solicited" }, self.frags[k].seq),
                        };
                        let sig = format!(
                            "C03 L1 released-without-confirmed-carrier last_carrier={} discarded={discarded}",
                            match last {
                                None => "none",
                                Some(k) => if self.frags[k].unsol { "unsolicited" } else { "solicited" },
                            }
                        );
                        if self.f.c03.is_none() {
                            self.f.c03 = Some(Fail::new("L1-released-without-confirmed-carrier", format!("event {id} was released by the confirmation of {:?} but {what}", confirmed.map(|x| x.0))).with_sig(sig));
                        }
                    }
                    if let Some(e) = self.events.get_mut(&id) {
                        e.released = true;
                    }
                    cleared_now.push(id);
                }
                Cb::EndConfirm(state) => {
                    in_bracket = false;
                    if let Some((f, _)) = confirmed {
                        // L2: everything the confirmed fragment carried is released now
                        let missing: Vec<u64> = self.frags[f]
                            .ids
                            .iter()
                            .copied()
                            .filter(|id| self.live(*id))
                            .collect();
                        if !missing.is_empty() {
                            self.fail03("L2-confirmed-events-not-released", format!("fragment #{f} was confirmed but events {:?} it carried were not released", missing));
                        }
                    }
                    // C13: overflow indication is cleared by a confirmation that leaves every type below capacity
                    let counts = [
                        state.types.num_binary_input,
                        state.types.num_double_bit_binary_input,
                        state.types.num_binary_output_status,
                        state.types.num_counter,
                        state.types.num_frozen_counter,
                        state.types.num_analog,
                        state.types.num_analog_output_status,
                        state.types.num_octet_string,
                    ];
                    let mut any_full = false;
                    for ty in 0..8u8 {
                        let live = self.count_live_of_type(ty);
                        if counts[ty as usize] != live {
                            self.fail03("L6-buffer-state", format!("end_confirm reports {} buffered {} events, the ledger holds {}", counts[ty as usize], TYPE_NAMES[ty as usize], live));
                        }
                        if self.cap[ty as usize] > 0 && live >= self.cap[ty as usize] as usize {
                            any_full = true;
                        }
                    }
                    if !any_full {
                        self.overflowed = false;
                    }
                }
                Cb::ClearRestartIin => self.restart = false,
                _ => {}
            }
        }
        while let Some(t) = tx.pop_front() {
            self.handle_tx(t);
        }
        if let Some((f, uncertain)) = confirmed {
            if brackets == 0 && !uncertain && !self.frags[f].ids.is_empty() {
                self.fail03("L2-confirmation-ignored", format!("a matching confirmation for the outstanding fragment #{f} was sent in time, but nothing was released"));
            }
            if brackets > 0 && !self.frags[f].ids.is_empty() && self.unconfirmed_carrier_seen {
                label(&mut self.f, "confirmed_after_unconfirmed_carrier");
                self.f.nontrivial_c03 = true;
            }
        }
    }

    async fn settle_and_process(&mut self, confirmed: Option<(usize, bool)>) {
        self.rig.settle().await;
        self.process(confirmed);
        // the release of a confirmed fragment may be followed at once by the next fragment of the series
        self.expire();
    }

    /// forget outstanding fragments whose confirmation window has passed
    fn expire(&mut self) {
        let now = self.rig.now_ms();
        self.expire_at(now);
    }

    fn expire_at(&mut self, now: u64) {
        if let Some(o) = &mut self.out_sol {
            let el = now.saturating_sub(o.t_tx);
            if el > CONFIRM_TIMEOUT {
                self.unconfirmed_carrier_seen |= !self.frags[o.frag].ids.is_empty();
                self.out_sol = None;
            } else if el == CONFIRM_TIMEOUT {
                o.uncertain = true;
            }
        }
        if let Some(o) = &mut self.out_unsol {
            let el = now.saturating_sub(o.t_tx);
            if el > CONFIRM_TIMEOUT && el <= 4 * CONFIRM_TIMEOUT {
                // the confirm timeout has passed. Nothing says that the wait cannot have been prolonged by what the
                // outstation did in the meantime (a solicited reply sent from inside the wait, say): until something shows
                // which - a retry: it goes on; a new response or the answer to a deferred READ: it ended - or four timeouts
                // have passed, the series may be over (since the timeout) or not
                if o.maybe_cancelled_at.is_none() {
                    o.maybe_cancelled_at = Some(o.t_tx + CONFIRM_TIMEOUT);
                    label(&mut self.f, "unsol_wait_past_its_timeout");
                }
                o.uncertain = true;
                if !o.is_null {
                    // the retry delay counts from the end of the series, wherever in that window it was
                    let until = o.t_tx + 4 * CONFIRM_TIMEOUT + RETRY_DELAY;
                    if self.delay_uncertain_until.map(|x| x < until).unwrap_or(true) {
                        self.delay_uncertain_until = Some(until);
                    }
                }
            } else if el > CONFIRM_TIMEOUT {
                if !self.frags[o.frag].ids.is_empty() {
                    self.unconfirmed_carrier_seen = true;
                    self.unsol_series_failed = true;
                    label(&mut self.f, "unsol_series_timed_out");
                }
                if !o.is_null {
                    // (a series that may have been cancelled earlier: the earlier end is the lenient one)
                    self.unsol_failed_at =
                        Some(o.maybe_cancelled_at.unwrap_or(o.t_tx + CONFIRM_TIMEOUT));
                    self.f.nontrivial_c14 = true;
                }
                let (seq, t_end) = (o.seq, o.t_tx + CONFIRM_TIMEOUT);
                self.out_unsol = None;
                if let Some(rs) = self.deferred_read_seq {
                    self.fail14("U7-deferred-read-dropped", format!("READ seq {rs} was received while unsolicited seq {seq} awaited its confirmation; the series ended at t={t_end} but the READ was never answered"));
                    self.deferred_read_seq = None;
                }
            } else if el == CONFIRM_TIMEOUT {
                o.uncertain = true;
            }
        }
    }

    fn read_request(&mut self, kind: &ReadKind) -> Fragment {
        let seq = self.next_seq();
        let mut o = vec![];
        let lim = |o: &mut Vec<u8>, g: u8, v: u8, l: &Option<u8>| match l {
            None => o.extend(ra::h_all(g, v)),
            Some(n) => o.extend(ra::h_count8(g, v, *n, &[])),
        };
        match kind {
            ReadKind::Classes(mask, l) => {
                for c in 0..3u8 {
                    if mask & (1 << c) != 0 {
                        lim(&mut o, 60, 2 + c, l);
                    }
                }
                if mask & 7 == 0 {
                    lim(&mut o, 60, 2, l);
                }
            }
            ReadKind::Type(ty, l) => lim(&mut o, EVENT_GROUP[*ty as usize % 8], 0, l),
            ReadKind::Specific(ty, v) => {
                let ty = *ty as usize % 7;
                let vars = EVENT_VARS[ty];
                o.extend(ra::h_all(EVENT_GROUP[ty], vars[*v as usize % vars.len()]));
            }
            ReadKind::Integrity(mask) => {
                for c in 0..3u8 {
                    if mask & (1 << c) != 0 {
                        o.extend(ra::h_all(60, 2 + c));
                    }
                }
                o.extend(ra::h_all(60, 1));
            }
        }
        Fragment::request(seq, func::READ, o)
    }

    /// a request fragment (not a confirm) was sent: a pending solicited series is aborted by it
    fn note_request_sent(&mut self, function: u8) {
        if function != func::READ {
            self.deferred_read_seq = None;
        }
        self.static_wanted = false;
        if let Some(o) = self.out_sol.take() {
            self.unconfirmed_carrier_seen |= !self.frags[o.frag].ids.is_empty();
            label(&mut self.f, "sol_series_aborted_by_request");
        }
    }

    fn note_confirm_sent(&mut self, confirmed: Option<(usize, bool)>, solicited: bool, seq: u8) {
        // a CONFIRM that carries the sequence number of no response of its kind confirms nothing: "until confirmed"
        let last = if solicited {
            self.last_sol_seq
        } else {
            self.last_unsol_seq
        };
        if confirmed.is_none() && last.is_some() && last != Some(seq & 0x0F) {
            if self.broadcast_pending == Some(1) && self.broadcast_reported {
                label(
                    &mut self.f,
                    "stray_confirm_while_mandatory_broadcast_reported",
                );
            }
            return;
        }
        // a confirmation can only acknowledge an indication that some response has reported
        if self.broadcast_pending == Some(1) && self.broadcast_reported {
            // (the confirmation of a response that did not itself report the broadcast - one that was already on its
            // way when the broadcast arrived - may count or not: "confirmed" can be read either way)
            let since = self.broadcast_since_frag;
            let reported_it = |frag: usize| {
                frag >= since
                    && self.frags[frag]
                        .bytes
                        .get(2)
                        .map(|b| b & iin1::BROADCAST != 0)
                        == Some(true)
            };
            match confirmed {
                Some((frag, false)) if !reported_it(frag) => {
                    self.broadcast_uncertain = true;
                    label(
                        &mut self.f,
                        "confirmation_of_a_response_that_did_not_report_the_broadcast",
                    );
                }
                Some((_, false)) => {
                    // an accepted confirmation ends a confirm-mandatory broadcast indication
                    self.broadcast_pending = None;
                    self.broadcast_uncertain = false;
                    self.broadcast_reported = false;
                }
                _ => self.broadcast_uncertain = true,
            }
        }
    }

    /// DISABLE_UNSOLICITED cancels the unsolicited series during whose confirm wait it is processed. Because a request
    /// that aborts a solicited series is kept and processed later (possibly after a new unsolicited response went
    /// out), the harness decides this by observation: the reply to the DISABLE request is seen while an unsolicited
    /// response is outstanding.
    fn disable_answered(&mut self) {
        let had_effect = std::mem::replace(&mut self.disable_had_effect, true);
        if !had_effect {
            // "DISABLE_UNSOLICITED stops it": one that names no enabled class has nothing to stop. Whether the series that
            // awaits its confirmation is cancelled all the same or goes on is left open; what follows shows which
            if let Some(o) = &mut self.out_unsol {
                o.uncertain = true;
                if o.maybe_cancelled_at.is_none() {
                    o.maybe_cancelled_at = Some(self.rig.now_ms());
                }
                if !o.is_null {
                    self.delay_uncertain_until =
                        Some(self.rig.now_ms() + RETRY_DELAY + CONFIRM_TIMEOUT);
                }
                label(&mut self.f, "disable_without_effect_during_unsol_wait");
            }
            return;
        }
        if let Some(o) = self.out_unsol.take() {
            if !o.is_null {
                self.unsol_failed_at = Some(o.maybe_cancelled_at.unwrap_or(self.rig.now_ms()));
            }
            if !self.frags[o.frag].ids.is_empty() {
                self.unconfirmed_carrier_seen = true;
                self.unsol_series_failed = true;
                label(&mut self.f, "unsol_series_cancelled_by_disable");
            }
        }
    }

    async fn step(&mut self, op: &Op) {
        self.step_inner(op).await;
        if !self.failed() {
            self.check_progress();
        }
    }

    async fn step_inner(&mut self, op: &Op) {
        if std::env::var("VERIF_TRACE").is_ok() {
            println!(
                "[op @{}] {:?}   out_sol={:?} out_unsol={:?}",
                self.rig.now_ms(),
                op,
                self.out_sol,
                self.out_unsol
            );
        }
        match op {
            Op::Update(k, fl) => {
                self.do_update(*k, *fl);
                self.settle_and_process(None).await;
            }
            Op::Read(kind) => {
                let f = self.read_request(kind);
                self.note_request_sent(func::READ);
                self.static_wanted = matches!(kind, ReadKind::Integrity(_));
                self.variation_requested = matches!(kind, ReadKind::Specific(..));
                self.deferred_read_seq = if self.out_unsol.is_some() {
                    Some(f.seq)
                } else {
                    None
                };
                self.rig.send(&f);
                self.settle_and_process(None).await;
            }
            Op::ConfirmSol(right, delta) => {
                let (seq, confirmed) = match (&self.out_sol, right) {
                    (Some(o), true) => (o.seq, Some((o.frag, o.uncertain))),
                    (Some(o), false) => ((o.seq + 1 + delta % 15) & 0x0F, None),
                    (None, _) => (*delta & 0x0F, None),
                };
                if confirmed.is_some() {
                    self.out_sol = None;
                } else {
                    label(&mut self.f, "wrong_or_stale_confirm");
                }
                self.note_confirm_sent(confirmed, true, seq);
                // a solicited confirm while an unsolicited response is outstanding must not release anything either
                self.rig.send(&Fragment::confirm(seq, false));
                self.settle_and_process(confirmed).await;
            }
            Op::ConfirmUnsol(right, delta) => {
                let (seq, confirmed) = match (&self.out_unsol, right) {
                    (Some(o), true) => (o.seq, Some((o.frag, o.uncertain))),
                    (Some(o), false) => ((o.seq + 1 + delta % 15) & 0x0F, None),
                    (None, _) => (*delta & 0x0F, None),
                };
                let mut was_deferred = None;
                if let Some((frag, uncertain)) = confirmed {
                    if !uncertain {
                        if self.out_unsol.as_ref().map(|o| o.is_null).unwrap_or(false) {
                            self.startup_done = true;
                        } else {
                            self.unsol_failed_at = None;
                        }
                        was_deferred = self.deferred_read_seq;
                    } else if self.out_unsol.as_ref().map(|o| o.is_null).unwrap_or(false) {
                        self.startup_maybe_done = true;
                    } else if self.out_unsol.as_ref().map(|o| !o.is_null).unwrap_or(false)
                        && !self.frags[frag].ids.is_empty()
                    {
                        // confirmed or failed at this very instant: the retry delay may or may not apply
                        self.unsol_failed_at = None;
                        self.delay_uncertain_until = Some(self.rig.now_ms() + RETRY_DELAY);
                    }
                    self.out_unsol = None;
                } else {
                    label(&mut self.f, "wrong_or_stale_confirm");
                }
                self.note_confirm_sent(confirmed, false, seq);
                self.rig.send(&Fragment::confirm(seq, true));
                self.settle_and_process(confirmed).await;
                if let Some(rs) = was_deferred {
                    label(&mut self.f, "deferred_read");
                    self.f.nontrivial_c14 = true;
                    if self.deferred_read_seq == Some(rs) {
                        self.fail14("U7-deferred-read-dropped", format!("READ seq {rs} was deferred behind an unsolicited response; that response has been confirmed but the READ was not answered"));
                    }
                }
            }
            Op::Advance(which, ms) => {
                let dt = match which % 5 {
                    0 => 1,
                    1 => CONFIRM_TIMEOUT - 1,
                    2 => CONFIRM_TIMEOUT + 1,
                    3 => RETRY_DELAY + 1,
                    _ => (*ms % 400) as u64,
                };
                // advance in slices so that retries re-arm the harness' view of the outstanding fragment
                let mut left = dt;
                while left > 0 {
                    let step = left.min(20);
                    self.rig.advance(step).await;
                    left -= step;
                    self.process(None);
                    self.expire();
                    if self.failed() {
                        return;
                    }
                }
            }
            Op::Abort(k) => {
                let seq = self.next_seq();
                let f = match k % 3 {
                    0 => Fragment::request(seq, func::DELAY_MEASURE, vec![]),
                    1 => Fragment::request(seq, func::RECORD_CURRENT_TIME, vec![]),
                    _ => {
                        Fragment::request(seq, func::WRITE, ra::h_count8(50, 1, 1, &ra::u48(12345)))
                    }
                };
                self.note_request_sent(f.func);
                self.rig.send(&f);
                self.settle_and_process(None).await;
            }
            Op::EnableUnsol(mask) | Op::DisableUnsol(mask) => {
                let enable = matches!(op, Op::EnableUnsol(_));
                let seq = self.next_seq();
                let classes: Vec<u8> = (1..=3u8).filter(|c| mask & (1 << (c - 1)) != 0).collect();
                let f = enable_unsol(seq, enable, &classes);
                self.note_request_sent(f.func);
                self.disable_seq = if enable { None } else { Some(seq) };
                self.pending_enable.push_back((seq, enable, mask & 7));
                self.rig.send(&f);
                self.settle_and_process(None).await;
            }
            Op::Reconnect | Op::Preempt => {
                let preempt = matches!(op, Op::Preempt);
                label(&mut self.f, if preempt { "preempt" } else { "reconnect" });
                if let Some(o) = &self.out_unsol {
                    if o.uncertain && !o.is_null {
                        // the series may have timed out at this very instant, starting a retry delay
                        self.delay_uncertain_until = Some(self.rig.now_ms() + RETRY_DELAY);
                    }
                }
                for o in [self.out_sol.take(), self.out_unsol.take()]
                    .into_iter()
                    .flatten()
                {
                    if !self.frags[o.frag].ids.is_empty() {
                        self.unconfirmed_carrier_seen = true;
                        label(&mut self.f, "reconnect_with_events_in_flight");
                    }
                }
                self.deferred_read_seq = None;
                self.pending_enable.clear();
                if !preempt {
                    self.rig.disconnect().await;
                    self.process(None);
                }
                self.rig.connect().await;
                self.broadcast_pending = self.broadcast_pending; // survives: session state is kept
                self.settle_and_process(None).await;
            }
            Op::Broadcast(mode, k) => {
                let seq = self.next_seq();
                let dst = 0xFFFDu16 + (*mode % 3) as u16; // FFFD = no confirm, FFFE = mandatory, FFFF = optional
                let f = match k % 4 {
                    0 => Fragment::request(seq, func::WRITE, ra::h_count8(50, 1, 1, &ra::u48(777))),
                    1 => Fragment::request(seq, func::RECORD_CURRENT_TIME, vec![]),
                    2 => Fragment::request(seq, func::IMMED_FREEZE_NR, ra::h_all(20, 0)),
                    // DISABLE_UNSOLICITED for all classes, by broadcast: no reply, takes effect when processed
                    _ => enable_unsol(seq, false, &[1, 2, 3]),
                };
                let disables = k % 4 == 3;
                // a broadcast is a new request for the solicited confirm wait as well
                self.note_request_sent(f.func);
                let b = self.rig.frame_fragment(MASTER_ADDR, dst, &f.encode());
                self.rig.send_raw(&b);
                self.sent_broadcasts.push_back(*mode % 3);
                label(&mut self.f, "broadcast");
                let _ = disables;
                self.settle_and_process(None).await;
            }
            Op::WriteRestart(v) => {
                let seq = self.next_seq();
                let f = Fragment::request(
                    seq,
                    func::WRITE,
                    ra::h_range8(80, 1, 7, 7, &[if *v { 0x01 } else { 0x00 }]),
                );
                self.note_request_sent(f.func);
                self.rig.send(&f);
                self.settle_and_process(None).await;
            }
            Op::SetAppIin(bits) => {
                self.app_iin = bits & 0x0F;
                let b = self.app_iin;
                self.rig.shared.beh.lock().unwrap().iin = ApplicationIin {
                    need_time: b & 1 != 0,
                    local_control: b & 2 != 0,
                    device_trouble: b & 4 != 0,
                    config_corrupt: b & 8 != 0,
                };
            }
        }
    }

    /// L6: everything that was neither released nor discarded is still on offer
    async fn drain(&mut self) {
        // end every wait, stop unsolicited reporting so that polls own the events
        for _ in 0..3 {
            if self.failed() {
                return;
            }
            self.step(&Op::Advance(4, 399)).await;
        }
        if self.case.unsolicited {
            self.step(&Op::DisableUnsol(7)).await;
            self.step(&Op::Advance(2, 0)).await;
        }
        for _round in 0..200 {
            if self.failed() {
                return;
            }
            // confirm whatever is outstanding, else poll
            if self.out_unsol.is_some() {
                self.step(&Op::ConfirmUnsol(true, 0)).await;
                continue;
            }
            if self.out_sol.is_some() {
                self.step(&Op::ConfirmSol(true, 0)).await;
                continue;
            }
            let before = self.frags.len();
            self.step(&Op::Read(ReadKind::Classes(7, None))).await;
            if self.frags.len() == before {
                // no answer (e.g. an unsolicited null response is pending): let time pass
                self.step(&Op::Advance(2, 0)).await;
                if self.frags.len() == before {
                    self.fail03(
                        "L6-poll-not-answered",
                        "a class poll in an otherwise idle session was not answered".to_string(),
                    );
                    return;
                }
                continue;
            }
            let last = self.frags.last().unwrap();
            if !last.unsol && last.ids.is_empty() && self.out_sol.is_none() {
                break;
            }
        }
        let left: Vec<u64> = self
            .events
            .iter()
            .filter(|(_, e)| !e.discarded && !e.released)
            .map(|(id, _)| *id)
            .collect();
        if !left.is_empty() {
            let never: Vec<&u64> = left
                .iter()
                .filter(|id| self.events[id].carried_by.is_empty())
                .collect();
            self.fail03(
                "L6-events-not-kept-on-offer",
                format!("after draining every class with confirmed polls, events {:?} were neither reported as released nor as discarded ({} of them were never transmitted)", left, never.len()),
            );
        }
    }
}

pub async fn run_history(case: &Case, c13_ops: bool) -> Findings {
    let mut cfg = OutConfig::default();
    cfg.sol_tx = case.sol_tx;
    cfg.unsol_tx = case.unsol_tx;
    cfg.unsolicited = case.unsolicited;
    cfg.confirm_timeout_ms = CONFIRM_TIMEOUT as u32;
    cfg.unsol_retry_delay_ms = RETRY_DELAY as u32;
    cfg.max_unsol_retries = case.retries;
    cfg.event_buffer = case.event_buffer;
    cfg.class_zero_octet_strings = true;
    let rig = OutRig::start(cfg, AppBehaviour::default()).await;
    rig.db(|db| {
        for p in &case.points {
            add_point(db, p);
        }
    });
    let mut s = Sess {
        case,
        rig,
        events: BTreeMap::new(),
        frags: vec![],
        out_sol: None,
        out_unsol: None,
        seq: 0,
        point_serial: BTreeMap::new(),
        global_serial: 0,
        f: Findings {
            c03: None,
            c13: None,
            c14: None,
            nontrivial_c14: false,
            common: None,
            labels: vec![],
            nontrivial_c03: false,
            nontrivial_c13: false,
        },
        overflowed: false,
        restart: true,
        broadcast_pending: None,
        broadcast_uncertain: false,
        broadcast_reported: false,
        last_sol_seq: None,
        broadcast_since_frag: 0,
        app_iin: 0,
        unconfirmed_carrier_seen: false,
        unsol_series_failed: false,
        cap: case.event_buffer,
        deferred_read_seq: None,
        static_wanted: false,
        variation_requested: false,
        disable_seq: None,
        disable_had_effect: true,
        sent_broadcasts: Default::default(),
        startup_done: false,
        startup_maybe_done: false,
        enabled: 0,
        pending_enable: Default::default(),
        unsol_failed_at: None,
        delay_uncertain_until: None,
        last_unsol_seq: None,
    };
    s.settle_and_process(None).await;
    if case.unsolicited && case.confirm_null {
        if s.out_unsol.is_some() {
            s.step(&Op::ConfirmUnsol(true, 0)).await;
        }
    }
    for op in &case.ops {
        if s.failed() {
            break;
        }
        s.step(op).await;
    }
    if !s.failed() && !c13_ops {
        s.drain().await;
    } else if !s.failed() {
        // C13 histories end with a poll so that the final state of every indication is observed
        s.step(&Op::Advance(4, 399)).await;
        s.step(&Op::Read(ReadKind::Integrity(7))).await;
    }
    if let Some(f) = s.rig.task_failure.take() {
        s.f.common = Some(f);
    }
    if s.frags.iter().any(|f| f.unsol && !f.ids.is_empty()) {
        label(&mut s.f, "unsol_with_events");
    }
    if s.frags.iter().any(|f| !f.unsol && !f.ids.is_empty()) {
        label(&mut s.f, "poll_with_events");
    }
    if s.events.values().any(|e| e.released) {
        label(&mut s.f, "some_event_released");
    }
    s.f
}

pub fn case_strategy(c13: bool, max_ops: usize) -> BoxedStrategy<Case> {
    let limit = prop_oneof![3 => Just(None), 1 => prop_oneof![Just(0u8), Just(1), Just(2), 3u8..10].prop_map(Some)];
    let read = prop_oneof![
        4 => (1u8..8, limit.clone()).prop_map(|(m, l)| ReadKind::Classes(m, l)),
        2 => (0u8..8, limit).prop_map(|(t, l)| ReadKind::Type(t, l)),
        1 => (0u8..7, any::<u8>()).prop_map(|(t, v)| ReadKind::Specific(t, v)),
        1 => (0u8..8).prop_map(ReadKind::Integrity),
    ];
    let mut ops: Vec<(u32, BoxedStrategy<Op>)> = vec![
        (
            8,
            (any::<u16>(), any::<u8>())
                .prop_map(|(k, f)| Op::Update(k, f))
                .boxed(),
        ),
        (4, read.prop_map(Op::Read).boxed()),
        (
            3,
            (prop_oneof![4 => Just(true), 1 => Just(false)], any::<u8>())
                .prop_map(|(r, d)| Op::ConfirmSol(r, d))
                .boxed(),
        ),
        (
            3,
            (prop_oneof![4 => Just(true), 1 => Just(false)], any::<u8>())
                .prop_map(|(r, d)| Op::ConfirmUnsol(r, d))
                .boxed(),
        ),
        (
            4,
            (0u8..5, any::<u16>())
                .prop_map(|(w, ms)| Op::Advance(w, ms))
                .boxed(),
        ),
        (1, any::<u8>().prop_map(Op::Abort).boxed()),
        (2, (1u8..8).prop_map(Op::EnableUnsol).boxed()),
        (1, (1u8..8).prop_map(Op::DisableUnsol).boxed()),
        (1, Just(Op::Reconnect).boxed()),
        (1, Just(Op::Preempt).boxed()),
    ];
    if !c13 {
        // requests by broadcast (one in four is a DISABLE_UNSOLICITED) abort and cancel like addressed ones
        ops.push((
            1,
            (0u8..3, any::<u8>())
                .prop_map(|(m, k)| Op::Broadcast(m, k))
                .boxed(),
        ));
    }
    if c13 {
        ops.push((
            2,
            (0u8..3, any::<u8>())
                .prop_map(|(m, k)| Op::Broadcast(m, k))
                .boxed(),
        ));
        ops.push((1, any::<bool>().prop_map(Op::WriteRestart).boxed()));
        ops.push((1, (0u8..16).prop_map(Op::SetAppIin).boxed()));
    }
    let op = proptest::strategy::Union::new_weighted(ops);
    (
        proptest::collection::vec(point_strategy(300), 1..6),
        proptest::collection::vec(prop_oneof![2 => 1u16..4, 1 => Just(0u16), 2 => 4u16..8], 8),
        prop_oneof![2 => Just(true), 1 => Just(false)],
        prop_oneof![9 => Just(true), 1 => Just(false)],
        prop_oneof![Just(None), Just(Some(0u8)), Just(Some(1)), Just(Some(3))],
        prop_oneof![2 => Just(249u16), 1 => 249u16..400, 1 => Just(2048u16)],
        prop_oneof![2 => Just(249u16), 1 => 249u16..400, 1 => Just(2048u16)],
        proptest::collection::vec(op, 1..max_ops),
    )
        .prop_map(
            |(mut points, eb, unsolicited, confirm_null, retries, sol_tx, unsol_tx, ops)| {
                // one specification per (type, index); every point reports events
                points.sort_by_key(|p| (p.ty, p.index));
                points.dedup_by_key(|p| (p.ty, p.index));
                for p in points.iter_mut() {
                    if p.class == 0 {
                        p.class = 1 + (p.index % 3) as u8;
                    }
                }
                let mut event_buffer = [0u16; 8];
                event_buffer.copy_from_slice(&eb);
                Case {
                    points,
                    event_buffer,
                    unsolicited,
                    confirm_null,
                    retries,
                    sol_tx,
                    unsol_tx,
                    ops,
                }
            },
        )
        .boxed()
}
