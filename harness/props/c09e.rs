//! C09 — the outstation's echo of control objects (SELECT / OPERATE / DIRECT_OPERATE responses): whatever is written,
//! into a transmit buffer of any size, parses and carries the request's objects
use crate::app::control::CommandStatus;
use crate::app::parse::options::ParseOptions;
use crate::app::parse::parser::ParsedFragment;
use crate::outstation::control::collection::ControlCollection;
use crate::verif::engine::*;
use crate::verif::props::c09::{build_cmds, CmdH};
use crate::verif::wire::app::{self as ra};
use proptest::prelude::*;
use serde::{Deserialize, Serialize};

#[derive(Clone, Debug, Serialize, Deserialize)]
pub struct EchoCase {
    pub hs: Vec<CmdH>,
    /// room for the object part of the response (the transmit buffer minus the response header)
    pub room: u16,
    pub status: u8,
}

pub struct Echoes;

type Flat = Vec<(u8, u8, u8, u32, Vec<u8>)>;

fn flatten(function: u8, objects: &[u8]) -> Result<Flat, String> {
    let hs = ra::walk(function, objects).map_err(|e| format!("{:?}", e))?;
    Ok(hs
        .into_iter()
        .flat_map(|h| {
            let (g, v, q) = (h.g, h.v, h.q);
            h.objects
                .into_iter()
                .map(move |o| (g, v, q, o.index.unwrap_or(0), o.data))
        })
        .collect())
}

impl Prop for Echoes {
    type Case = EchoCase;
    const ID: &'static str = "C09";
    const NAME: &'static str = "echoes";
    fn rule() -> &'static str {
        "control requests (g12v1, g41v1-4, 8/16-bit prefixes, 1-3 headers of 1-5 or 254..258 objects, reference-encoded) are parsed into a ControlCollection and echoed with a generated status into a buffer with room for 0..2044 octets - as the outstation does for SELECT / OPERATE / DIRECT_OPERATE responses, including those that outgrow the transmit buffer; oracle: whatever was written parses as the object part of a response with the library parser and with the reference walker, and its objects are the first k objects of the request, in order, with only the status octet replaced (all of them if the writer reported success); non-trivial = the echo did not fit"
    }
    fn cases(tier: Tier) -> u32 {
        match tier {
            Tier::Quick => 60_000,
            Tier::Thorough => 6_000_000,
        }
    }
    fn floors() -> Vec<(&'static str, u32)> {
        vec![("echo_truncated", 200), ("echo_complete", 200)]
    }
    fn strategy(_tier: Tier) -> BoxedStrategy<EchoCase> {
        let idx = prop_oneof![
            0u16..10,
            Just(255u16),
            Just(256u16),
            Just(65535u16),
            any::<u16>()
        ];
        let cmdh = (
            0u8..5,
            any::<bool>(),
            prop_oneof![
                20 => proptest::collection::vec((idx.clone(), any::<u32>()), 1..6),
                1 => proptest::collection::vec((idx, any::<u32>()), 250..=255),
            ],
        )
            .prop_map(|(kind, wide, objs)| CmdH { kind, wide, objs });
        (
            proptest::collection::vec(cmdh, 1..=3),
            prop_oneof![2 => 0u16..120, 1 => 0u16..2045, 1 => Just(2044u16), 1 => Just(245u16)],
            prop_oneof![3 => Just(0u8), 1 => 1u8..=20, 1 => Just(126u8), 1 => Just(127u8)],
        )
            .prop_map(|(hs, room, status)| EchoCase { hs, room, status })
            .boxed()
    }
    fn run(case: &EchoCase) -> CaseOut {
        let mut out = CaseOut::default();
        ParseOptions::parse_zero_length_strings(false);
        // 8-bit headers hold at most 255 objects
        let hs: Vec<CmdH> = case
            .hs
            .iter()
            .map(|h| {
                let mut h = h.clone();
                h.objs.truncate(255);
                h
            })
            .collect();
        let (_, body) = build_cmds(&hs);
        let mut request = vec![0xC3, 5];
        request.extend_from_slice(&body);
        if request.len() > 2048 {
            out.label("request_larger_than_a_fragment");
            return out;
        }
        let p = match ParsedFragment::parse(ParseOptions::default(), &request) {
            Ok(p) => p,
            Err(e) => {
                out.fail(Fail::new(
                    "E-request",
                    format!(
                        "the library parser rejects the reference-encoded control request: {e:?}"
                    ),
                ));
                return out;
            }
        };
        let objs = match p.objects {
            Ok(o) => o,
            Err(e) => {
                out.fail(Fail::new("E-request", format!("the library parser rejects the objects of the reference-encoded control request: {e:?}")));
                return out;
            }
        };
        let cc = match ControlCollection::from(objs) {
            Ok(cc) => cc,
            Err(_) => {
                out.fail(Fail::new(
                    "E-request",
                    "control objects are not accepted as a control collection",
                ));
                return out;
            }
        };
        let mut buffer = vec![0u8; case.room as usize];
        let (result, written) = {
            let mut cursor = scursor::WriteCursor::new(&mut buffer);
            let r = cc.respond_with_status(&mut cursor, CommandStatus::from(case.status));
            (r, cursor.position())
        };
        let echo = &buffer[..written];
        let asked = match flatten(5, &body) {
            Ok(a) => a,
            Err(e) => {
                out.fail(Fail::new(
                    "E-request",
                    format!("reference walker cannot read its own encoding: {e}"),
                ));
                return out;
            }
        };
        out.label(if result.is_ok() {
            "echo_complete"
        } else {
            "echo_truncated"
        });
        if result.is_err() {
            out.nontrivial = true;
        }
        // (1) it parses
        let mut response = vec![0xC3, 129, 0, 0];
        response.extend_from_slice(echo);
        let lib_ok = ParsedFragment::parse(ParseOptions::default(), &response)
            .map(|p| p.objects.is_ok())
            .unwrap_or(false);
        let got = flatten(129, echo);
        if !lib_ok || got.is_err() {
            out.fail(
                Fail::new("E-echo-does-not-parse", format!("the echo written into {} octets of room ({} written, writer says {:?}) does not parse: library parser ok = {lib_ok}, reference walker: {:?}; octets {:02x?}", case.room, written, result, got.as_ref().map(|g| g.len()), &echo[..echo.len().min(40)]))
                    .with_sig(format!("C09 E-echo-does-not-parse complete={}", result.is_ok())),
            );
            return out;
        }
        let got = got.unwrap();
        // (2) the first k objects of the request, only the status replaced
        let want: Flat = asked
            .iter()
            .map(|(g, v, q, i, d)| {
                let mut d = d.clone();
                if let Some(last) = d.last_mut() {
                    *last = case.status;
                }
                (*g, *v, *q, *i, d)
            })
            .collect();
        let complete = result.is_ok();
        if got.len() > want.len()
            || got[..] != want[..got.len()]
            || (complete && got.len() != want.len())
        {
            let at = got
                .iter()
                .zip(want.iter())
                .position(|(a, b)| a != b)
                .unwrap_or(got.len().min(want.len()));
            out.fail(Fail::new("E-echo-objects", format!("echo of {} objects into {} octets of room carries {} objects (writer says {:?}); first difference at object #{at}: echoed {:?}, requested {:?}", want.len(), case.room, got.len(), result, got.get(at), want.get(at))));
        }
        out
    }
}
