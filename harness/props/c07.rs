//! C07 — endpoints act only on traffic addressed to them; broadcasts are never answered
use crate::app::EndpointType;
use crate::decode::DecodeLevel;
use crate::link::header::FrameType;
use crate::link::layer::Layer;
use crate::link::parser::FramePayload;
use crate::link::reader::LinkModes;
use crate::link::{EndpointAddress, LinkErrorMode};
use crate::outstation::database::UpdateOptions;
use crate::outstation::Feature;
use crate::util::phys::PhysLayer;
use crate::verif::engine::*;
use crate::verif::io::pipe;
use crate::verif::props::ost::*;
use crate::verif::rig::exec::block_on_ready;
use crate::verif::rig::outstation::*;
use crate::verif::rig::runtime;
use crate::verif::wire::app::{self as ra, func, Fragment};
use crate::verif::wire::link as rl;
use proptest::prelude::*;
use serde::{Deserialize, Serialize};

const LOCAL: u16 = 10;

#[derive(Clone, Copy, Debug, PartialEq)]
enum Sec {
    NotReset,
    Reset(bool),
}

/// what the library did with one frame
#[derive(Debug, PartialEq)]
struct Seen {
    delivered: Option<(FrameType, u16, bool)>,
    reply: Option<(u8, u16, u16)>,
    extra_writes: usize,
}

fn feed(layer: &mut Layer, frame: &[u8]) -> Seen {
    let (io, mut peer) = pipe(false);
    peer.send(frame);
    peer.close();
    let mut phys = PhysLayer::Verif(io);
    let mut payload = FramePayload::new();
    let r = block_on_ready(layer.read(&mut phys, DecodeLevel::nothing(), &mut payload));
    let delivered = r.ok().map(|info| {
        (
            info.frame_type,
            info.source.raw_value(),
            info.broadcast.is_some(),
        )
    });
    let writes = peer.drain();
    let reply = writes.first().and_then(|w| match rl::try_frame(w) {
        rl::TryFrame::Ok(f, n) if n == w.len() && f.payload.is_empty() => {
            Some((f.ctrl, f.dst, f.src))
        }
        _ => Some((0xFF, 0, 0)),
    });
    Seen {
        delivered,
        reply,
        extra_writes: writes.len().saturating_sub(1),
    }
}

/// the statement, transcribed. None = not asserted.
struct Expect {
    addressed: bool,
    deliver: Option<bool>,
    reply: Option<Option<u8>>,
    /// confirmed user data by broadcast with the expected frame count bit: delivering it (the bit toggles) and dropping it
    /// (it does not) are both within the statement; the caller moves the model along with what it sees
    toggle_if_delivered: bool,
}

fn expect(
    master_role: bool,
    self_en: bool,
    sec: &mut Sec,
    reset_by: Option<u16>,
    ctrl: u8,
    dst: u16,
    src: u16,
) -> Expect {
    let nothing = Expect {
        addressed: false,
        toggle_if_delivered: false,
        deliver: Some(false),
        reply: Some(None),
    };
    let from_master = ctrl & 0x80 != 0;
    if from_master == master_role {
        return nothing; // same station type
    }
    if src >= 0xFFF0 {
        return nothing; // reserved / broadcast / self address as source
    }
    let prm = ctrl & 0x40 != 0;
    let function = ctrl & 0x0F;
    let fcb = ctrl & 0x20 != 0;
    let fcv = ctrl & 0x10 != 0;
    let user_data = prm && (function == 3 || function == 4);
    let broadcast = match dst {
        d if d == LOCAL => false,
        0xFFFC => {
            if self_en && !master_role {
                false
            } else {
                return nothing;
            }
        }
        0xFFFD..=0xFFFF => {
            if !master_role && user_data {
                true
            } else {
                return nothing;
            }
        }
        _ => return nothing,
    };
    // addressed to us by the opposite station type from a proper source
    if !prm {
        return Expect {
            addressed: true,
            toggle_if_delivered: false,
            deliver: None,
            reply: None,
        };
    }
    match (function, fcv) {
        (4, false) => Expect {
            addressed: true,
            toggle_if_delivered: false,
            deliver: Some(true),
            reply: Some(None),
        },
        (0, false) => {
            *sec = Sec::Reset(true);
            Expect {
                addressed: true,
                toggle_if_delivered: false,
                deliver: Some(false),
                reply: Some(Some(0x00)),
            }
        }
        (3, true) => match *sec {
            Sec::NotReset => Expect {
                addressed: true,
                toggle_if_delivered: false,
                deliver: Some(false),
                reply: if broadcast { Some(None) } else { None },
            },
            // "delivered at most once per frame-count-bit toggle after a link reset" is an upper bound: a station that has
            // not itself reset the link need not be served (one link state per primary station is as good as one per
            // layer); only the broadcast rule and the at-most-once bound (checked by the caller) are asserted then
            Sec::Reset(_) if reset_by.is_some() && reset_by != Some(src) => Expect {
                addressed: true,
                toggle_if_delivered: false,
                deliver: None,
                reply: if broadcast { Some(None) } else { None },
            },
            Sec::Reset(exp) if broadcast => Expect {
                addressed: true,
                toggle_if_delivered: fcb == exp,
                deliver: if fcb == exp { None } else { Some(false) },
                reply: Some(None),
            },
            Sec::Reset(exp) => {
                let deliver = fcb == exp;
                if deliver {
                    *sec = Sec::Reset(!exp);
                }
                Expect {
                    addressed: true,
                    toggle_if_delivered: false,
                    deliver: Some(deliver),
                    reply: Some(Some(0x00)),
                }
            }
        },
        (9, false) => Expect {
            addressed: true,
            toggle_if_delivered: false,
            deliver: None,
            reply: Some(Some(0x0B)),
        },
        // malformed flag combinations and other functions: only "a broadcast is never answered" is asserted
        _ => Expect {
            addressed: true,
            toggle_if_delivered: false,
            deliver: None,
            reply: if broadcast { Some(None) } else { None },
        },
    }
}

fn exhaustive_table() -> (u64, Vec<J>, Option<(Fail, J)>) {
    let mut n = 0u64;
    let mut samples = vec![];
    let dsts: Vec<u16> = vec![
        LOCAL, 11, 0xFFFC, 0xFFFD, 0xFFFE, 0xFFFF, 0xFFF0, 0xFFF1, 0xFFF2, 0xFFF3, 0xFFF4, 0xFFF5,
        0xFFF6, 0xFFF7, 0xFFF8, 0xFFF9, 0xFFFA, 0xFFFB, 0,
    ];
    let srcs: Vec<u16> = vec![1, 1024, 0xFFEF, LOCAL, 0xFFF0, 0xFFFC, 0xFFFF];
    for master_role in [false, true] {
        for self_en in [false, true] {
            if master_role && self_en {
                continue; // masters have no self-address feature
            }
            for start_reset in [false, true] {
                for ctrl in 0..=255u8 {
                    beat();
                    for dst in &dsts {
                        for src in &srcs {
                            let modes = LinkModes::stream(LinkErrorMode::Discard);
                            let mut layer = Layer::new(
                                modes,
                                2048,
                                if master_role {
                                    EndpointType::Master
                                } else {
                                    EndpointType::Outstation
                                },
                                if self_en {
                                    Feature::Enabled
                                } else {
                                    Feature::Disabled
                                },
                                EndpointAddress::raw(LOCAL),
                            );
                            let mut sec = Sec::NotReset;
                            // every address of the peer that is allowed to reset us does so first, when asked
                            if start_reset {
                                let reset = rl::encode(
                                    if master_role { 0x40 } else { 0xC0 },
                                    LOCAL,
                                    1,
                                    &[],
                                );
                                let _ = feed(&mut layer, &reset);
                                sec = Sec::Reset(true);
                            }
                            // the same frame twice: the second pass sees the FCB toggle / repeat
                            let mut deliveries = 0;
                            for pass in 0..2 {
                                n += 1;
                                let payload: Vec<u8> = if ctrl & 0x4F == 0x43 || ctrl & 0x4F == 0x44
                                {
                                    vec![0xC0, 0xC1, 0x17]
                                } else {
                                    vec![]
                                };
                                let frame = rl::encode(ctrl, *dst, *src, &payload);
                                let e = expect(
                                    master_role,
                                    self_en,
                                    &mut sec,
                                    if start_reset { Some(1) } else { None },
                                    ctrl,
                                    *dst,
                                    *src,
                                );
                                let seen = feed(&mut layer, &frame);
                                if e.toggle_if_delivered && seen.delivered.is_some() {
                                    if let Sec::Reset(x) = sec {
                                        sec = Sec::Reset(!x);
                                    }
                                }
                                let js = J::o(vec![
                                    (
                                        "role",
                                        J::s(if master_role { "master" } else { "outstation" }),
                                    ),
                                    ("self_address", J::Bool(self_en)),
                                    ("after_reset", J::Bool(start_reset)),
                                    ("pass", J::U(pass)),
                                    ("ctrl", J::U(ctrl as u64)),
                                    ("dst", J::U(*dst as u64)),
                                    ("src", J::U(*src as u64)),
                                ]);
                                if samples.len() < 2 && ctrl == 0xD3 && *dst == LOCAL && start_reset
                                {
                                    samples.push(js.clone());
                                }
                                let own_dir = if master_role { 0x80u8 } else { 0x00 };
                                let mut bad: Option<String> = None;
                                if seen.delivered.is_some() {
                                    deliveries += 1;
                                }
                                if ctrl & 0x5F == 0x53 && deliveries > 1 {
                                    bad = Some("the same confirmed user data frame (same frame count bit) was delivered twice".into());
                                }
                                if let Some(d) = e.deliver {
                                    if d != seen.delivered.is_some() {
                                        bad = Some(format!(
                                            "delivered={:?}, the statement says delivered={d}",
                                            seen.delivered
                                        ));
                                    }
                                }
                                if let (Some(true), Some((_, s, b))) = (e.deliver, seen.delivered) {
                                    if s != *src || b != (*dst >= 0xFFFD) {
                                        bad = Some(format!(
                                            "delivered with source {s} broadcast={b}"
                                        ));
                                    }
                                }
                                if let Some(r) = e.reply {
                                    let want = r.map(|f| (own_dir | f, *src, LOCAL));
                                    if want != seen.reply || seen.extra_writes > 0 {
                                        bad = Some(format!(
                                            "reply {:?} (+{} more writes), the statement says {:?}",
                                            seen.reply, seen.extra_writes, want
                                        ));
                                    }
                                }
                                if !e.addressed
                                    && (seen.delivered.is_some() || seen.reply.is_some())
                                {
                                    bad = Some(format!(
                                        "frame not addressed to this endpoint was acted on: {:?}",
                                        seen
                                    ));
                                }
                                if let Some(why) = bad {
                                    return (n, samples, Some((Fail::new("link-addressing", format!("ctrl={ctrl:#04x} dst={dst:#06x} src={src:#06x} role={} self_address={self_en} after_reset={start_reset} pass={pass}: {why}", if master_role { "master" } else { "outstation" })), js)));
                                }
                            }
                        }
                    }
                }
            }
        }
    }
    (n, samples, None)
}

// ---------------------------------------------------------------------------------------------
// generated FCB sequences for the secondary station

#[derive(Clone, Debug, Serialize, Deserialize)]
pub struct FcbCase {
    pub master_role: bool,
    /// (kind: 0 reset, 1 confirmed data, 2 unconfirmed data, 3 link status, 4 confirmed data by broadcast; fcb)
    pub frames: Vec<(u8, bool)>,
}

pub struct Fcb;

impl Prop for Fcb {
    type Case = FcbCase;
    const ID: &'static str = "C07";
    const NAME: &'static str = "fcb";
    fn rule() -> &'static str {
        "sequences of RESET_LINK_STATES / CONFIRMED_USER_DATA with arbitrary FCB / UNCONFIRMED_USER_DATA / REQUEST_LINK_STATUS / confirmed data by broadcast in any order against one link Layer per case (both roles); oracle: confirmed data is delivered iff the station has been reset and FCB equals the expected bit, which starts at 1 and toggles on each delivery; ACK for every confirmed frame once reset (never for broadcast); link status always answered; non-trivial = a sequence with a repeated FCB after a reset"
    }
    fn cases(tier: Tier) -> u32 {
        match tier {
            Tier::Quick => 100_000,
            Tier::Thorough => 4_000_000,
        }
    }
    fn strategy(_tier: Tier) -> BoxedStrategy<FcbCase> {
        (any::<bool>(), proptest::collection::vec((prop_oneof![2 => Just(0u8), 6 => Just(1u8), 1 => Just(2u8), 1 => Just(3u8), 1 => Just(4u8)], any::<bool>()), 1..20)).prop_map(|(master_role, frames)| FcbCase { master_role, frames }).boxed()
    }
    fn run(case: &FcbCase) -> CaseOut {
        let mut out = CaseOut::default();
        let mut layer = Layer::new(
            LinkModes::stream(LinkErrorMode::Close),
            2048,
            if case.master_role {
                EndpointType::Master
            } else {
                EndpointType::Outstation
            },
            Feature::Disabled,
            EndpointAddress::raw(LOCAL),
        );
        let dir: u8 = if case.master_role { 0x00 } else { 0x80 };
        let mut sec = Sec::NotReset;
        let mut last_fcb: Option<bool> = None;
        for (i, (kind, fcb)) in case.frames.iter().enumerate() {
            let fcbit = if *fcb { 0x20 } else { 0 };
            let (ctrl, dst, payload): (u8, u16, Vec<u8>) = match kind {
                0 => (dir | 0x40, LOCAL, vec![]),
                1 => (
                    dir | 0x40 | 0x10 | fcbit | 0x03,
                    LOCAL,
                    vec![0xC0, 0xC0 | i as u8 & 0x0F, 0x17],
                ),
                2 => (dir | 0x44, LOCAL, vec![0xC0, 0xC1, 0x17]),
                3 => (dir | 0x49, LOCAL, vec![]),
                _ => (
                    dir | 0x40 | 0x10 | fcbit | 0x03,
                    0xFFFF,
                    vec![0xC0, 0xC1, 0x18],
                ),
            };
            if case.master_role && *kind == 4 {
                continue;
            }
            if matches!(kind, 1 | 4) {
                if let (Sec::Reset(_), Some(l)) = (sec, last_fcb) {
                    if l == *fcb {
                        out.label("repeated_fcb_after_reset");
                        out.nontrivial = true;
                    }
                }
                last_fcb = Some(*fcb);
            }
            let e = expect(case.master_role, false, &mut sec, None, ctrl, dst, 1);
            let seen = feed(&mut layer, &rl::encode(ctrl, dst, 1, &payload));
            if e.toggle_if_delivered && seen.delivered.is_some() {
                if let Sec::Reset(x) = sec {
                    sec = Sec::Reset(!x);
                }
            }
            let own_dir = if case.master_role { 0x80u8 } else { 0x00 };
            if let Some(d) = e.deliver {
                if d != seen.delivered.is_some() {
                    out.fail(Fail::new("fcb-delivery", format!("frame #{i} kind {kind} fcb {fcb}: delivered={:?}, expected {d} (model state {:?})", seen.delivered, sec)));
                    return out;
                }
            }
            if let Some(r) = e.reply {
                let want = r.map(|f| (own_dir | f, 1u16, LOCAL));
                if want != seen.reply {
                    out.fail(Fail::new(
                        "fcb-reply",
                        format!(
                            "frame #{i} kind {kind} fcb {fcb}: reply {:?}, expected {:?}",
                            seen.reply, want
                        ),
                    ));
                    return out;
                }
            }
        }
        out
    }
}

// ---------------------------------------------------------------------------------------------
// session level: foreign masters and broadcasts

#[derive(Clone, Debug, Serialize, Deserialize)]
pub struct SessCase {
    /// 0 idle, 1 solicited confirm wait, 2 unsolicited confirm wait (null), 3 unsolicited confirm wait (data)
    pub state: u8,
    pub any_master: bool,
    pub broadcast_enabled: bool,
    /// 0 = configured master, 1 = foreign master, 2..=4 = broadcast address FFFD/FFFE/FFFF (from the configured master), 5 = broadcast from a foreign master
    pub origin: u8,
    /// fragment kind, see `fragment_of`
    pub kind: u8,
    pub seq: u8,
    /// 0 = the fragment travels in one transport segment; 1 = in two segments from its sender; 2 = in two segments of
    /// which the FIRST comes from the other master address (foreign <-> configured); 3 = the SECOND does
    #[serde(default)]
    pub split: u8,
    /// 0 = a stream transport without socket addresses; k >= 1 = a datagram outstation whose configured remote endpoint is
    /// the socket address of peer 9: the fragment arrives from peer 9 (k odd) or from another socket address, peer 3 (k
    /// even). What is sent in reply goes to the socket address the request came from; unsolicited responses go to the
    /// configured endpoint
    #[serde(default)]
    pub peer: u8,
}

fn fragment_of(kind: u8, seq: u8, outstanding: Option<(u8, bool)>) -> (Vec<u8>, &'static str) {
    let seq = seq & 0x0F;
    match kind % 14 {
        // a CONFIRM that matches the response awaiting confirmation (if any), solicited or unsolicited as required
        12 => match outstanding {
            Some((s, uns)) => (Fragment::confirm(s, uns).encode(), "matching CONFIRM"),
            None => (Fragment::confirm(seq, false).encode(), "stray CONFIRM"),
        },
        13 => match outstanding {
            Some((s, uns)) => (
                Fragment::confirm(s, !uns).encode(),
                "CONFIRM with the other UNS bit",
            ),
            None => (
                Fragment::confirm(seq, true).encode(),
                "stray unsolicited CONFIRM",
            ),
        },
        0 => (
            Fragment::request(seq, func::READ, ra::h_all(60, 1)).encode(),
            "valid READ",
        ),
        1 => (
            Fragment::request(seq, func::WRITE, ra::h_count8(50, 1, 1, &ra::u48(99))).encode(),
            "valid WRITE time",
        ),
        2 => (
            Fragment::request(
                seq,
                func::DIRECT_OPERATE,
                ra::h_prefixed8(12, 1, &[(1, ra::crob(3, 1, 1, 1, 0))]),
            )
            .encode(),
            "valid DIRECT_OPERATE",
        ),
        3 => (
            Fragment::request(
                seq,
                func::DIRECT_OPERATE_NR,
                ra::h_prefixed8(12, 1, &[(1, ra::crob(3, 1, 1, 1, 0))]),
            )
            .encode(),
            "valid DIRECT_OPERATE_NR",
        ),
        4 => (
            Fragment::request(seq, 25, vec![]).encode(),
            "unsupported function (OPEN_FILE)",
        ),
        5 => (vec![0x80 | seq, func::READ, 60, 1, 6], "FIR without FIN"),
        6 => (vec![0x40 | seq, func::READ, 60, 1, 6], "FIN without FIR"),
        7 => (
            vec![0xD0 | seq, func::READ, 60, 1, 6],
            "UNS bit on a request",
        ),
        8 => (
            vec![0xC0 | seq, func::WRITE, 50, 1, 7, 1, 1, 2],
            "truncated objects",
        ),
        9 => (vec![0xC0 | seq, 0x63], "unknown function code"),
        10 => (vec![0xC0 | seq], "one-octet fragment"),
        _ => (
            Fragment::request(seq, func::COLD_RESTART, vec![]).encode(),
            "valid COLD_RESTART",
        ),
    }
}

pub struct Sess;

impl Prop for Sess {
    type Case = SessCase;
    const ID: &'static str = "C07";
    const NAME: &'static str = "session";
    fn rule() -> &'static str {
        "application fragments {valid READ/WRITE/DIRECT_OPERATE(+NR)/COLD_RESTART, unsupported function, FIR-only, FIN-only, UNS on a request, truncated objects, unknown function code, one octet} from {configured master, foreign master, the three broadcast addresses, broadcast by a foreign master} in {idle, solicited confirm wait, null / data unsolicited confirm wait} with respond-to-any-master and broadcast support on/off; oracle: NOTHING is transmitted in reaction to a broadcast; for a foreign master with any-master off no application fragment is transmitted and no application/control callback fires; with any-master on a reply goes to the sender's address; non-trivial = a fragment that is not a valid request, from a foreign master or by broadcast"
    }
    fn cases(tier: Tier) -> u32 {
        match tier {
            Tier::Quick => 60_000,
            Tier::Thorough => 2_400_000,
        }
    }
    fn strategy(_tier: Tier) -> BoxedStrategy<SessCase> {
        (
            0u8..4,
            any::<bool>(),
            prop_oneof![3 => Just(true), 1 => Just(false)],
            0u8..6,
            0u8..14,
            0u8..16,
            (
                prop_oneof![4 => Just(0u8), 1 => Just(1u8), 2 => Just(2u8), 2 => Just(3u8)],
                prop_oneof![3 => Just(0u8), 1 => Just(1u8), 2 => Just(2u8)],
            ),
        )
            .prop_map(
                |(state, any_master, broadcast_enabled, origin, kind, seq, (split, peer))| {
                    SessCase {
                        state,
                        any_master,
                        broadcast_enabled,
                        origin,
                        kind,
                        seq,
                        split,
                        peer,
                    }
                },
            )
            .boxed()
    }
    fn run(case: &SessCase) -> CaseOut {
        let rt = runtime();
        rt.block_on(run_sess(case))
    }
}

async fn run_sess(case: &SessCase) -> CaseOut {
    let mut out = CaseOut::default();
    let mut cfg = OutConfig::default();
    cfg.unsolicited = case.state >= 2;
    cfg.any_master = case.any_master;
    cfg.broadcast = case.broadcast_enabled;
    cfg.confirm_timeout_ms = 100;
    cfg.keep_alive_ms = None;
    if case.peer != 0 {
        cfg.udp_remote = Some(9);
    }
    let from_peer: Option<u8> = match case.peer {
        0 => None,
        k if k % 2 == 1 => Some(9),
        _ => Some(3),
    };
    let mut beh = AppBehaviour::default();
    beh.cold_restart = Some(crate::outstation::RestartDelay::Seconds(1));
    let mut rig = OutRig::start(cfg, beh).await;
    rig.db(|db| {
        for i in 0..3 {
            add_point(
                db,
                &PointSpec {
                    ty: 0,
                    index: i,
                    class: 1,
                    svar: 2,
                    evar: 1,
                },
            );
        }
        add_point(
            db,
            &PointSpec {
                ty: 2,
                index: 1,
                class: 0,
                svar: 2,
                evar: 1,
            },
        );
    });
    rig.settle().await;
    match case.state {
        1 => {
            rig.db(|db| {
                update_point(
                    db,
                    &unique_rec(0, 0, 1, 1, 0),
                    UpdateOptions::detect_event(),
                )
            });
            rig.send(&read_classes(3, &[1]));
            rig.settle().await;
        }
        3 => {
            confirm_null_unsol(&mut rig).await;
            rig.send(&enable_unsol(3, true, &[1, 2, 3]));
            rig.settle().await;
            rig.db(|db| {
                update_point(
                    db,
                    &unique_rec(0, 0, 1, 1, 0),
                    UpdateOptions::detect_event(),
                )
            });
            rig.settle().await;
        }
        _ => {}
    }
    // the response that is awaiting its confirmation, if any: (sequence number, unsolicited)
    let outstanding: Option<(u8, bool)> = rig.take_tx().iter().rev().find_map(|t| match t {
        Tx::Fragment { bytes, .. } if bytes.len() >= 2 && bytes[0] & 0x20 != 0 => {
            Some((bytes[0] & 0x0F, bytes[1] == func::UNSOLICITED_RESPONSE))
        }
        _ => None,
    });
    let _ = rig.shared.take_log();
    out.label(format!("state:{}", case.state));

    let (frag, what) = fragment_of(case.kind, case.seq, outstanding);
    if case.kind % 14 >= 12 && outstanding.is_some() {
        out.label("confirm_for_outstanding_response");
    }
    let (src, dst) = match case.origin {
        0 => (MASTER_ADDR, OUTSTATION_ADDR),
        1 => (55u16, OUTSTATION_ADDR),
        2 => (MASTER_ADDR, 0xFFFD),
        3 => (MASTER_ADDR, 0xFFFE),
        4 => (MASTER_ADDR, 0xFFFF),
        _ => (55u16, 0xFFFF),
    };
    let is_broadcast = dst >= 0xFFFD;
    let foreign = src != MASTER_ADDR;
    let valid = matches!(case.kind % 14, 0 | 1 | 2 | 3 | 11 | 12 | 13);
    if !valid && (is_broadcast || foreign) {
        out.nontrivial = true;
        out.label("invalid_fragment_from_foreign_or_broadcast");
    }
    let split = if frag.len() >= 2 { case.split % 4 } else { 0 };
    let other = if foreign { MASTER_ADDR } else { 55u16 };
    let mixed = split >= 2;
    let bytes = if split == 0 {
        rig.frame_fragment(src, dst, &frag)
    } else {
        // two transport segments (FIR, then FIN, consecutive sequence numbers), each in its own link frame
        let cut = 1 + (case.seq as usize % (frag.len() - 1));
        let (s1, s2) = match split {
            1 => (src, src),
            2 => (other, src),
            _ => (src, other),
        };
        let t = case.seq & 0x3F;
        let mut p1 = vec![0x40 | t];
        p1.extend_from_slice(&frag[..cut]);
        let mut p2 = vec![0x80 | ((t + 1) & 0x3F)];
        p2.extend_from_slice(&frag[cut..]);
        let mut b = rl::encode(0xC4, dst, s1, &p1);
        b.extend(rl::encode(0xC4, dst, s2, &p2));
        out.label(if mixed {
            "segments_from_two_masters"
        } else {
            "two_segments"
        });
        if mixed {
            out.nontrivial = true;
        }
        b
    };
    match from_peer {
        // (one datagram per link frame)
        Some(k) => {
            let mut rest = &bytes[..];
            while let rl::TryFrame::Ok(_, n) = rl::try_frame(rest) {
                rig.send_raw_from(&rest[..n], k);
                rest = &rest[n..];
                if rest.is_empty() {
                    break;
                }
            }
        }
        None => rig.send_raw(&bytes),
    }
    rig.settle().await;
    let tx = rig.take_tx();
    if let Some(k) = from_peer {
        out.label(if k == 9 {
            "from_the_configured_socket_address"
        } else {
            "from_another_socket_address"
        });
        // where did every frame written in reaction go? replies (link-layer frames, solicited responses) to the socket
        // address the request came from, unsolicited responses to the configured remote endpoint
        let mut current_is_unsolicited = false;
        for (raw, dest) in rig.last_writes.clone() {
            if let rl::TryFrame::Ok(f, _) = rl::try_frame(&raw) {
                if f.payload.len() >= 3 && f.payload[0] & 0x40 != 0 {
                    current_is_unsolicited = f.payload[2] == func::UNSOLICITED_RESPONSE;
                } else if f.payload.is_empty() {
                    current_is_unsolicited = false;
                }
                let want = if current_is_unsolicited && !f.payload.is_empty() {
                    9
                } else {
                    k
                };
                if dest != Some(want) {
                    out.fail(
                        Fail::new(
                            "reply-to-wrong-socket-address",
                            format!("{what} arrived from socket address of peer {k} (configured remote endpoint: peer 9); a frame with control {:#04x} ({}) was written to {:?}", f.ctrl, if f.payload.is_empty() { "link layer only".to_string() } else if current_is_unsolicited { "unsolicited response".to_string() } else { "solicited response".to_string() }, dest),
                        )
                        .with_sig(format!("C07 reply-to-wrong-socket-address unsolicited={current_is_unsolicited}")),
                    );
                    break;
                }
            }
        }
    }
    let log = rig.shared.take_log();
    let app_frags: Vec<(u16, Vec<u8>)> = tx
        .iter()
        .filter_map(|t| match t {
            Tx::Fragment { dst, bytes, .. } => Some((*dst, bytes.clone())),
            _ => None,
        })
        .collect();
    let executed: Vec<String> = log
        .iter()
        .filter_map(|(_, cb)| match cb {
            Cb::WriteAbsoluteTime(_)
            | Cb::ColdRestart
            | Cb::WarmRestart
            | Cb::Freeze(_)
            | Cb::Select(..)
            | Cb::Operate(..)
            | Cb::ControlBegin
            | Cb::ClearRestartIin
            // a confirmation that is acted upon
            | Cb::BeginConfirm
            | Cb::EventCleared(_)
            | Cb::SolConfirmReceived(_)
            | Cb::UnsolConfirmed(_) => Some(format!("{:?}", cb)),
            _ => None,
        })
        .collect();
    if is_broadcast {
        if !tx.is_empty() {
            out.fail(
                Fail::new("reply-to-broadcast", format!("{what} sent to broadcast address {dst:#06x} from {src} in state {}: the outstation transmitted {:02x?}", case.state, tx))
                    .with_sig(format!("C07 reply-to-broadcast kind={}", if valid { "valid" } else { "invalid" })),
            );
        }
        if case.kind % 14 >= 12 && !executed.is_empty() {
            out.fail(
                Fail::new("broadcast-confirm-acted-on", format!("{what} sent to broadcast address {dst:#06x} in state {} was acted upon: {:?}", case.state, executed)).with_sig("C07 broadcast confirm acted on"),
            );
        }
        if foreign && !case.any_master && !executed.is_empty() {
            out.fail(Fail::new(
                "foreign-broadcast-executed",
                format!(
                    "broadcast {what} from foreign master {src} executed: {:?}",
                    executed
                ),
            ));
        }
    } else if mixed && !case.any_master {
        // one of the two segments comes from an address that is not the configured master: whatever is made of them
        // is not a fragment from the configured master
        if !app_frags.is_empty() || !executed.is_empty() {
            out.fail(
                Fail::new(
                    "mixed-source-fragment-accepted",
                    format!("{what} in two transport segments, the {} from master address {} and the other from {} (configured {MASTER_ADDR}, any-master off), in state {}: answered {:02x?}, executed {:?}", if split == 2 { "first" } else { "second" }, other, src, case.state, app_frags, executed),
                )
                .with_sig("C07 mixed-source-fragment-accepted"),
            );
        }
    } else if foreign && !case.any_master {
        if !app_frags.is_empty() {
            out.fail(
                Fail::new("reply-to-foreign-master", format!("{what} from master address {src} (configured {MASTER_ADDR}, any-master off) in state {}: the outstation answered {:02x?}", case.state, app_frags))
                    .with_sig(format!("C07 reply-to-foreign-master kind={}", if valid { "valid" } else { "invalid" })),
            );
        }
        if !executed.is_empty() {
            out.fail(Fail::new(
                "foreign-master-executed",
                format!("{what} from master address {src} executed: {:?}", executed),
            ));
        }
    } else if foreign && case.any_master {
        for (d, _) in &app_frags {
            // solicited replies go back to the sender (an unsolicited response still goes to the configured master)
            if *d != src && *d != MASTER_ADDR {
                out.fail(Fail::new(
                    "reply-to-wrong-address",
                    format!("reply sent to {d}, request came from {src}"),
                ));
            }
        }
        if valid
            && !mixed
            && case.state == 0
            && !matches!(case.kind % 14, 3 | 12 | 13)
            && !app_frags
                .iter()
                .any(|(d, b)| *d == src && b.len() >= 2 && b[1] == func::RESPONSE)
        {
            out.fail(Fail::new("any-master-not-answered", format!("{what} from master {src} with any-master enabled was not answered to the sender: {:02x?}", app_frags)));
        }
    }
    if let Some(f) = rig.task_failure.take() {
        out.fail(f);
    }
    out
}

pub fn run<C: Codec>(tier: Tier) -> i32 {
    let mut ctx = Ctx::<C>::new("C07", tier);
    ctx.assumptions.push("link level: frames with malformed flag combinations (FCV on reset/unconfirmed/link-status, FCV clear on confirmed data) and secondary-to-primary frames are only required not to be acted on when not addressed to the endpoint; a REQUEST_LINK_STATUS sent to a broadcast address is required NOT to be answered".into());
    ctx.exhaustive("256 control bytes x 19 destinations (own, other, self address, 3 broadcast, 12 reserved, 0) x 7 sources x role x self-address feature x {fresh, after link reset} x 2 passes", exhaustive_table);
    ctx.run::<Fcb>();
    ctx.run::<Sess>();
    ctx.finish()
}

pub fn replay<C: Codec>(text: &str, known: &[Known]) -> Option<i32> {
    replay_file::<C, Fcb>(text, known).or_else(|| replay_file::<C, Sess>(text, known))
}
