//! C05 — a retransmitted request is answered from memory and never executed twice
use crate::outstation::database::UpdateOptions;
use crate::verif::engine::*;
use crate::verif::props::ost::*;
use crate::verif::rig::outstation::*;
use crate::verif::rig::runtime;
use crate::verif::wire::app::{self as ra, func, Fragment};
use crate::verif::wire::link as rl;
use proptest::prelude::*;
use serde::{Deserialize, Serialize};

#[derive(Clone, Debug, Serialize, Deserialize, PartialEq)]
pub enum Placement {
    Idle,
    /// while fragment #k (k >= 1 confirmed fragments before it) of a multi-fragment READ response awaits its confirm
    MidSeries(u8),
    /// while the start-up null unsolicited response awaits its confirm
    UnsolNullWait,
    /// while an unsolicited response with events awaits its confirm
    UnsolDataWait,
    /// a READ of the event classes is deferred during an unsolicited confirm wait and answered (with events, so that
    /// confirmation is requested) when the wait ends; the READ is repeated while THAT response awaits its confirm
    DeferredRead,
    /// a confirm-mandatory broadcast has just been received: the response to the request reports it and asks for a
    /// confirmation, so that even a non-READ request leaves the session in a solicited confirm wait (which may time out
    /// before the request is repeated)
    AfterMandatoryBroadcast,
}

#[derive(Clone, Debug, Serialize, Deserialize)]
pub enum Between {
    Nothing,
    WrongConfirm(u8),
    Update(u8),
    Advance(u8),
    LinkStatus,
    ForeignFragment,
    /// a DIRECT_OPERATE_NR with other objects arrives by broadcast (executed, never answered): it uses the outstation's
    /// buffers but is not what a retransmission of the request before it refers to
    BroadcastControl,
    /// a fragment with a function code no outstation knows (answered with a header-only error response that is not kept):
    /// the retransmission that follows still refers to the request before it, and its echo is that request's response
    UnknownFunction,
}

#[derive(Clone, Debug, Serialize, Deserialize)]
pub struct Case {
    pub placement: Placement,
    /// index into the request table
    pub request: u8,
    pub seq: u8,
    pub repeats: u8,
    pub between: Vec<Between>,
    pub sol_tx: u16,
    pub points: u8,
    pub retries: Option<u8>,
}

pub const N_REQUESTS: u8 = 18;

fn request(k: u8, seq: u8) -> Fragment {
    let crob = ra::h_prefixed8(
        12,
        1,
        &[
            (1, ra::crob(3, 1, 10, 10, 0)),
            (2, ra::crob(4, 1, 10, 10, 0)),
        ],
    );
    match k % N_REQUESTS {
        0 => Fragment::request(
            seq,
            func::WRITE,
            ra::h_count8(50, 1, 1, &ra::u48(1_600_000_000_000)),
        ),
        1 => Fragment::request(seq, func::WRITE, ra::h_range8(80, 1, 7, 7, &[0])),
        2 => Fragment::request(
            seq,
            func::WRITE,
            ra::h_prefixed8(34, 1, &[(0, vec![7, 0]), (1, vec![9, 0])]),
        ),
        3 => Fragment::request(seq, func::SELECT, crob),
        4 => Fragment::request(seq, func::OPERATE, crob),
        5 => Fragment::request(seq, func::DIRECT_OPERATE, crob),
        6 => Fragment::request(seq, func::DIRECT_OPERATE_NR, crob),
        7 => Fragment::request(seq, func::IMMED_FREEZE, ra::h_all(20, 0)),
        8 => Fragment::request(seq, func::FREEZE_CLEAR, ra::h_range8(20, 0, 0, 1, &[])),
        9 => {
            let mut o = ra::h_count8(50, 2, 1, &[1, 2, 3, 4, 5, 6, 10, 0, 0, 0]);
            o.extend(ra::h_all(20, 0));
            Fragment::request(seq, func::FREEZE_AT_TIME, o)
        }
        10 => Fragment::request(seq, func::COLD_RESTART, vec![]),
        11 => Fragment::request(seq, func::WARM_RESTART, vec![]),
        12 => Fragment::request(seq, func::DELAY_MEASURE, vec![]),
        13 => Fragment::request(seq, func::RECORD_CURRENT_TIME, vec![]),
        14 => Fragment::request(seq, func::ENABLE_UNSOLICITED, ra::h_all(60, 2)),
        15 => Fragment::request(seq, func::DISABLE_UNSOLICITED, ra::h_all(60, 3)),
        16 => Fragment::request(seq, func::READ, ra::h_all(60, 1)),
        _ => Fragment::request(
            seq,
            func::DIRECT_OPERATE,
            ra::h_prefixed16(41, 2, &[(3, vec![5, 0, 0])]),
        ),
    }
}

fn side_effects(log: &[(u64, Cb)]) -> Vec<String> {
    log.iter()
        .filter_map(|(_, cb)| match cb {
            Cb::WriteAbsoluteTime(_)
            | Cb::ColdRestart
            | Cb::WarmRestart
            | Cb::Freeze(_)
            | Cb::BeginDeadBands
            | Cb::DeadBand(..)
            | Cb::WriteAttr(_)
            | Cb::Select(..)
            | Cb::Operate(..)
            | Cb::ClearRestartIin
            | Cb::ControlBegin => Some(format!("{:?}", cb)),
            _ => None,
        })
        .collect()
}

pub struct Repeat;

impl Prop for Repeat {
    type Case = Case;
    const ID: &'static str = "C05";
    const NAME: &'static str = "repeat";
    fn rule() -> &'static str {
        "a request from every function the outstation executes (WRITE time/restart/dead-band, SELECT, OPERATE, DIRECT_OPERATE(+NR), freezes, COLD/WARM_RESTART, DELAY_MEASURE, RECORD_CURRENT_TIME, ENABLE/DISABLE_UNSOLICITED, READ) placed in idle / while fragment k>=1 of a multi-fragment series awaits its confirm / during a null or data unsolicited confirm wait, then repeated 1-4 times byte-identically with generated non-request steps in between (wrong confirms, updates, time, link status, foreign-master fragment); tx buffers 249..2048; oracle: no side-effecting callback fires on a repeat of a non-READ; the reply to a repeat equals the first reply byte for byte; every fragment re-sent in a confirm wait (echo of a repeated READ, unsolicited retry with an unchanged sequence number) is byte-identical to a fragment already transmitted in this session; non-trivial = idle with a side-effecting function, mid-series with k >= 2, or an unsolicited wait"
    }
    fn cases(tier: Tier) -> u32 {
        match tier {
            Tier::Quick => 120_000,
            Tier::Thorough => 4_800_000,
        }
    }
    fn floors() -> Vec<(&'static str, u32)> {
        vec![
            ("placement:mid_series_k>=2", 15),
            ("placement:unsol", 30),
            ("echo_seen", 50),
            ("unsol_retry_seen", 10),
        ]
    }
    fn strategy(_tier: Tier) -> BoxedStrategy<Case> {
        let placement = prop_oneof![3 => Just(Placement::Idle), 1 => Just(Placement::AfterMandatoryBroadcast), 3 => (1u8..5).prop_map(Placement::MidSeries), 1 => Just(Placement::UnsolNullWait), 2 => Just(Placement::UnsolDataWait), 1 => Just(Placement::DeferredRead)];
        let between = prop_oneof![
            3 => Just(Between::Nothing),
            1 => any::<u8>().prop_map(Between::WrongConfirm),
            1 => any::<u8>().prop_map(Between::Update),
            1 => (0u8..90).prop_map(Between::Advance),
            // longer than the confirm timeout (100 ms)
            1 => (101u8..160).prop_map(Between::Advance),
            1 => Just(Between::LinkStatus),
            1 => Just(Between::ForeignFragment),
            1 => Just(Between::BroadcastControl),
            1 => Just(Between::UnknownFunction),
        ];
        (
            placement,
            0u8..N_REQUESTS,
            0u8..16,
            1u8..=4,
            proptest::collection::vec(between, 4),
            prop_oneof![3 => Just(249u16), 1 => 249u16..600, 1 => Just(2048u16)],
            20u8..120,
            prop_oneof![Just(None), Just(Some(1u8)), Just(Some(3u8))],
        )
            .prop_map(
                |(placement, request, seq, repeats, between, sol_tx, points, retries)| {
                    // a repeated READ is only a retransmission inside a confirm wait
                    let request = if matches!(placement, Placement::MidSeries(_)) {
                        16
                    } else {
                        request
                    };
                    Case {
                        placement,
                        request,
                        seq,
                        repeats,
                        between,
                        sol_tx,
                        points,
                        retries,
                    }
                },
            )
            .boxed()
    }
    fn run(case: &Case) -> CaseOut {
        let rt = runtime();
        rt.block_on(run_case(case))
    }
}

struct Obs {
    /// every application fragment transmitted so far in this session
    sent: Vec<Vec<u8>>,
    last_unsol: Option<Vec<u8>>,
    unsol_confirmed_since: bool,
}

impl Obs {
    /// record transmissions; checks the unsolicited re-send rule
    fn take(&mut self, rig: &mut OutRig, out: &mut CaseOut) -> Vec<Vec<u8>> {
        let mut new = vec![];
        for t in rig.take_tx() {
            if std::env::var("VERIF_TRACE").is_ok() {
                if let Tx::Fragment { bytes, t, .. } = &t {
                    println!(
                        "  [tx @{}] {} bytes {:02x?}",
                        t,
                        bytes.len(),
                        &bytes[..bytes.len().min(12)]
                    );
                }
            }
            match t {
                Tx::Fragment { bytes, .. } => {
                    if bytes.len() >= 2 && bytes[1] == func::UNSOLICITED_RESPONSE {
                        if let Some(prev) = &self.last_unsol {
                            if prev[0] & 0x0F == bytes[0] & 0x0F && !self.unsol_confirmed_since {
                                out.label("unsol_retry_seen");
                                if !self.sent.contains(&bytes) {
                                    out.fail(Fail::new(
                                        "unsolicited-retry-differs",
                                        format!("unsolicited fragment re-uses sequence {} without an intervening confirm but is not identical to any fragment sent before: {:02x?} vs first {:02x?}", bytes[0] & 0x0F, bytes, prev),
                                    ));
                                }
                            }
                        }
                        self.last_unsol = Some(bytes.clone());
                        self.unsol_confirmed_since = false;
                    }
                    self.sent.push(bytes.clone());
                    new.push(bytes);
                }
                Tx::Garbage { why, .. } => out.fail(Fail::new("malformed-transmission", why)),
                Tx::Link { .. } => {}
            }
        }
        new
    }
}

async fn do_between(
    rig: &mut OutRig,
    b: &Between,
    serial: &mut u32,
    points: u8,
    outstanding_seq: Option<u8>,
    request_seq: u8,
) {
    match b {
        Between::UnknownFunction => {
            // (a sequence number of its own, so that its error response is not taken for an echo)
            rig.send_fragment(&[0xC0 | ((request_seq + 5) & 0x0F), 0x70]);
            rig.settle().await;
        }
        Between::Nothing => {}
        Between::WrongConfirm(s) => {
            // a solicited confirm whose number matches nothing outstanding
            let wrong = match outstanding_seq {
                Some(q) => (q + 1 + (s % 15)) & 0x0F,
                None => s & 0x0F,
            };
            rig.send(&Fragment::confirm(wrong, false));
            rig.settle().await;
        }
        Between::Update(k) => {
            *serial += 1;
            let r = unique_rec(5, (*k % points.max(1)) as u16, *serial, *serial, 0);
            rig.db(|db| update_point(db, &r, UpdateOptions::detect_event()));
            rig.settle().await;
        }
        Between::Advance(ms) => rig.advance(*ms as u64).await,
        Between::LinkStatus => {
            rig.send_raw(&rl::encode(0xC9, OUTSTATION_ADDR, MASTER_ADDR, &[]));
            rig.settle().await;
        }
        Between::ForeignFragment => {
            let f = Fragment::request(2, func::READ, ra::h_all(60, 1)).encode();
            let b = rig.frame_fragment(99, OUTSTATION_ADDR, &f);
            rig.send_raw(&b);
            rig.settle().await;
        }
        Between::BroadcastControl => {
            let f = Fragment::request(
                9,
                func::DIRECT_OPERATE_NR,
                ra::h_prefixed8(41, 2, &[(0x21, vec![0x55, 0x66, 0])]),
            )
            .encode();
            let b = rig.frame_fragment(MASTER_ADDR, 0xFFFD, &f);
            rig.send_raw(&b);
            rig.settle().await;
        }
    }
}

async fn run_case(case: &Case) -> CaseOut {
    let mut out = CaseOut::default();
    let unsolicited = matches!(
        case.placement,
        Placement::UnsolNullWait | Placement::UnsolDataWait | Placement::DeferredRead
    );
    let mut cfg = OutConfig::default();
    cfg.sol_tx = case.sol_tx;
    cfg.unsol_tx = 249;
    cfg.unsolicited = unsolicited;
    cfg.confirm_timeout_ms = 100;
    cfg.unsol_retry_delay_ms = 130;
    cfg.max_unsol_retries = case.retries;
    cfg.event_buffer = [30; 8];
    let mut beh = AppBehaviour::default();
    beh.cold_restart = Some(crate::outstation::RestartDelay::Seconds(3));
    beh.warm_restart = Some(crate::outstation::RestartDelay::Milliseconds(7));
    let mut rig = OutRig::start(cfg, beh).await;
    rig.db(|db| {
        for i in 0..case.points as u16 {
            add_point(
                db,
                &PointSpec {
                    ty: 5,
                    index: i,
                    class: 1,
                    svar: 1,
                    evar: 3,
                },
            );
            add_point(
                db,
                &PointSpec {
                    ty: 3,
                    index: i,
                    class: 2,
                    svar: 1,
                    evar: 1,
                },
            );
        }
        add_point(
            db,
            &PointSpec {
                ty: 2,
                index: 1,
                class: 0,
                svar: 2,
                evar: 1,
            },
        );
        add_point(
            db,
            &PointSpec {
                ty: 6,
                index: 3,
                class: 0,
                svar: 1,
                evar: 1,
            },
        );
    });
    let mut obs = Obs {
        sent: vec![],
        last_unsol: None,
        unsol_confirmed_since: false,
    };
    let mut serial = 0u32;
    rig.settle().await;
    let startup = obs.take(&mut rig, &mut out);

    // --- placement ---
    let mut series_seq: Option<u8> = None;
    match &case.placement {
        Placement::Idle => out.label("placement:idle"),
        Placement::AfterMandatoryBroadcast => {
            out.label("placement:after_mandatory_broadcast");
            out.nontrivial = true;
            let f = Fragment::request(
                (case.seq + 9) & 0x0F,
                func::DIRECT_OPERATE_NR,
                ra::h_prefixed8(41, 2, &[(0x22, vec![0x11, 0x22, 0])]),
            )
            .encode();
            let b = rig.frame_fragment(MASTER_ADDR, 0xFFFE, &f);
            rig.send_raw(&b);
            rig.settle().await;
            let _ = rig.shared.take_log();
        }
        Placement::UnsolNullWait => {
            out.label("placement:unsol");
            out.nontrivial = true;
            if !startup.iter().any(|b| b[1] == func::UNSOLICITED_RESPONSE) {
                out.label("setup_failed");
            }
        }
        Placement::UnsolDataWait => {
            out.label("placement:unsol");
            out.nontrivial = true;
            if let Some(n) = startup.iter().find(|b| b[1] == func::UNSOLICITED_RESPONSE) {
                rig.send(&Fragment::confirm(n[0] & 0x0F, true));
                obs.unsol_confirmed_since = true;
                rig.settle().await;
            }
            rig.send(&enable_unsol((case.seq + 5) & 0x0F, true, &[1, 2, 3]));
            rig.settle().await;
            serial += 1;
            let r = unique_rec(5, 0, serial, serial, 0);
            rig.db(|db| update_point(db, &r, UpdateOptions::detect_event()));
            rig.settle().await;
            let f = obs.take(&mut rig, &mut out);
            if !f
                .iter()
                .any(|b| b[1] == func::UNSOLICITED_RESPONSE && b.len() > 4)
            {
                out.label("setup_failed");
            }
        }
        Placement::DeferredRead => {
            out.label("placement:deferred_read");
            let mut useq: Option<u8> = None;
            if let Some(n) = startup.iter().find(|b| b[1] == func::UNSOLICITED_RESPONSE) {
                rig.send(&Fragment::confirm(n[0] & 0x0F, true));
                obs.unsol_confirmed_since = true;
                rig.settle().await;
            }
            rig.send(&enable_unsol((case.seq + 5) & 0x0F, true, &[1, 2, 3]));
            rig.settle().await;
            serial += 1;
            let r = unique_rec(5, 0, serial, serial, 0);
            rig.db(|db| update_point(db, &r, UpdateOptions::detect_event()));
            rig.settle().await;
            for b in obs.take(&mut rig, &mut out) {
                if b[1] == func::UNSOLICITED_RESPONSE && b.len() > 4 {
                    useq = Some(b[0] & 0x0F);
                }
            }
            // another event, not part of the unsolicited response in flight
            serial += 1;
            let r = unique_rec(5, 1 % case.points.max(1) as u16, serial, serial, 0);
            rig.db(|db| update_point(db, &r, UpdateOptions::detect_event()));
            rig.settle().await;
            // the READ under test: deferred
            rig.send(&read_classes(case.seq, &[1, 2, 3]));
            rig.settle().await;
            let early = obs.take(&mut rig, &mut out);
            match useq {
                Some(u) if !early.iter().any(|b| b[1] == func::RESPONSE) => {
                    rig.send(&Fragment::confirm(u, true));
                    rig.settle().await;
                    let f = obs.take(&mut rig, &mut out);
                    // answered now, with events: confirmation requested
                    if f.iter().any(|b| {
                        b[1] == func::RESPONSE && b[0] & 0x0F == case.seq && b[0] & 0x20 != 0
                    }) {
                        series_seq = Some(case.seq);
                        out.nontrivial = true;
                    } else {
                        out.label("setup_failed");
                    }
                }
                _ => out.label("setup_failed"),
            }
        }
        Placement::MidSeries(k) => {
            // the READ itself is the request under test: send it, confirm k fragments
            let req = request(16, case.seq);
            rig.send(&req);
            rig.settle().await;
            let mut confirmed = 0u8;
            loop {
                let f = obs.take(&mut rig, &mut out);
                let last = match f.last() {
                    Some(b) => b.clone(),
                    None => break,
                };
                let fin = last[0] & 0x40 != 0;
                series_seq = Some(last[0] & 0x0F);
                if fin || confirmed >= *k {
                    if fin {
                        series_seq = None;
                    }
                    break;
                }
                rig.send(&Fragment::confirm(last[0] & 0x0F, false));
                rig.settle().await;
                confirmed += 1;
            }
            if series_seq.is_none() {
                out.label("series_too_short");
            } else if confirmed >= 2 {
                out.label("placement:mid_series_k>=2");
                out.nontrivial = true;
            } else {
                out.label("placement:mid_series_k=1");
            }
        }
    }
    if out.failed() {
        return out;
    }

    let req = if case.placement == Placement::DeferredRead {
        read_classes(case.seq, &[1, 2, 3])
    } else {
        request(case.request, case.seq)
    };
    let req_bytes = req.encode();
    let is_read = req.func == func::READ;
    let _ = rig.shared.take_log();

    // --- first transmission (for MidSeries the READ has been sent already) ---
    let mut first_reply: Option<Vec<u8>> = None;
    if !matches!(
        case.placement,
        Placement::MidSeries(_) | Placement::DeferredRead
    ) {
        rig.send_fragment(&req_bytes);
        rig.settle().await;
        let f = obs.take(&mut rig, &mut out);
        first_reply = f
            .iter()
            .find(|b| b[1] == func::RESPONSE && b[0] & 0x0F == case.seq)
            .cloned();
        let log = rig.shared.take_log();
        if !side_effects(&log).is_empty() {
            out.label("side_effecting_function");
            if case.placement == Placement::Idle {
                out.nontrivial = true;
            }
        }
    }

    // --- repeats ---
    for i in 0..case.repeats {
        if out.failed() || rig.task_failure.is_some() {
            break;
        }
        if let Some(b) = case.between.get(i as usize) {
            do_between(&mut rig, b, &mut serial, case.points, series_seq, case.seq).await;
            if matches!(b, Between::BroadcastControl | Between::UnknownFunction)
                || matches!(b, Between::Advance(ms) if *ms >= 100)
            {
                // a broadcast request ends a solicited series like any new request: a READ repeated after it is a new READ
                series_seq = None;
            }
            let _ = obs.take(&mut rig, &mut out);
            // a solicited series or unsolicited wait may have timed out meanwhile; that is fine, the rules below are conditional
        }
        let _ = rig.shared.take_log();
        let before = obs.sent.clone();
        rig.send_fragment(&req_bytes);
        rig.settle().await;
        let f = obs.take(&mut rig, &mut out);
        let log = rig.shared.take_log();
        let replies: Vec<&Vec<u8>> = f.iter().filter(|b| b[1] == func::RESPONSE).collect();
        if !is_read {
            // (1) never executed twice
            let fx = side_effects(&log);
            if !fx.is_empty() {
                out.fail(
                    Fail::new(
                        "repeat-executed",
                        format!(
                            "repeat #{} of request {} (func {}) fired callbacks {:?}",
                            i + 1,
                            case.request,
                            req.func,
                            fx
                        ),
                    )
                    .with_sig(format!("C05 repeat-executed func={}", req.func)),
                );
            }
            // (2) answered from memory
            for r in &replies {
                // (whatever sequence number it carries: a "response" to the repeated request that is put together from the
                // header of one response and the objects of another is no echo either)
                if r[0] & 0x0F == case.seq || first_reply.is_some() {
                    out.label("echo_seen");
                    if Some(*r) != first_reply.as_ref() {
                        out.fail(
                            Fail::new(
                                "echo-differs-from-first-reply",
                                format!("repeat #{} of request func {} answered {:02x?}, the first reply was {:02x?}", i + 1, req.func, r, first_reply),
                            )
                            .with_sig(format!("C05 echo-differs func={} placement={:?}", req.func, case.placement)),
                        );
                    }
                }
            }
            if first_reply.is_some()
                && replies.is_empty()
                && matches!(case.placement, Placement::Idle)
            {
                out.fail(Fail::new("repeat-not-answered", format!("repeat #{} of request func {} in idle got no reply although the first transmission was answered", i + 1, req.func)));
            }
        } else if let (Placement::MidSeries(_) | Placement::DeferredRead, Some(_)) =
            (&case.placement, series_seq)
        {
            // (3) a READ repeated while its own series awaits a confirm: whatever is sent must be a fragment sent before
            for r in &replies {
                out.label("echo_seen");
                if !before.contains(r) {
                    out.fail(
                        Fail::new(
                            "echo-is-not-a-previously-sent-fragment",
                            format!("in reaction to the repeated READ the outstation sent {} bytes starting {:02x?} which equal none of the {} fragments transmitted before", r.len(), &r[..r.len().min(24)], before.len()),
                        )
                        .with_sig("C05 echo-mixture mid-series".to_string()),
                    );
                }
            }
        }
    }
    // let unsolicited retries happen and check them as they come
    if unsolicited && !out.failed() {
        for _ in 0..5 {
            rig.advance(60).await;
            let _ = obs.take(&mut rig, &mut out);
        }
    }
    if let Some(f) = rig.task_failure.take() {
        out.fail(f);
    }
    out
}

pub fn run<C: Codec>(tier: Tier) -> i32 {
    let mut ctx = Ctx::<C>::new("C05", tier);
    ctx.assumptions.push("a READ repeated from idle is answered afresh (documented in the code, not forbidden by the statement): identity is not asserted there".into());
    ctx.run::<Repeat>();
    ctx.finish()
}

pub fn replay<C: Codec>(text: &str, known: &[Known]) -> Option<i32> {
    replay_file::<C, Repeat>(text, known)
}
