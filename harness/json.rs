//! tiny JSON builder/printer for evidence and replay files (cases themselves are serialised by the Codec)
#[derive(Clone, Debug)]
pub enum J {
    Null,
    Bool(bool),
    U(u64),
    I(i64),
    F(f64),
    S(String),
    A(Vec<J>),
    O(Vec<(String, J)>),
    /// pre-serialised JSON text
    Raw(String),
}

impl J {
    pub fn s(x: impl Into<String>) -> J {
        J::S(x.into())
    }
    pub fn o(pairs: Vec<(&str, J)>) -> J {
        J::O(pairs.into_iter().map(|(k, v)| (k.to_string(), v)).collect())
    }
    pub fn strs<I: IntoIterator<Item = S>, S: Into<String>>(it: I) -> J {
        J::A(it.into_iter().map(|s| J::S(s.into())).collect())
    }
    pub fn render(&self) -> String {
        let mut out = String::new();
        self.write(&mut out, 0);
        out
    }
    fn write(&self, out: &mut String, ind: usize) {
        match self {
            J::Null => out.push_str("null"),
            J::Bool(b) => out.push_str(if *b { "true" } else { "false" }),
            J::U(x) => out.push_str(&x.to_string()),
            J::I(x) => out.push_str(&x.to_string()),
            J::F(x) => {
                if x.is_finite() {
                    out.push_str(&format!("{:?}", x))
                } else {
                    out.push_str("null")
                }
            }
            J::S(s) => write_str(out, s),
            J::Raw(r) => out.push_str(r),
            J::A(a) => {
                if a.is_empty() {
                    out.push_str("[]");
                    return;
                }
                out.push_str("[\n");
                for (i, x) in a.iter().enumerate() {
                    out.push_str(&" ".repeat(ind + 1));
                    x.write(out, ind + 1);
                    if i + 1 < a.len() {
                        out.push(',');
                    }
                    out.push('\n');
                }
                out.push_str(&" ".repeat(ind));
                out.push(']');
            }
            J::O(o) => {
                if o.is_empty() {
                    out.push_str("{}");
                    return;
                }
                out.push_str("{\n");
                for (i, (k, v)) in o.iter().enumerate() {
                    out.push_str(&" ".repeat(ind + 1));
                    write_str(out, k);
                    out.push_str(": ");
                    v.write(out, ind + 1);
                    if i + 1 < o.len() {
                        out.push(',');
                    }
                    out.push('\n');
                }
                out.push_str(&" ".repeat(ind));
                out.push('}');
            }
        }
    }
}

fn write_str(out: &mut String, s: &str) {
    out.push('"');
    for c in s.chars() {
        match c {
            '"' => out.push_str("\\\""),
            '\\' => out.push_str("\\\\"),
            '\n' => out.push_str("\\n"),
            '\r' => out.push_str("\\r"),
            '\t' => out.push_str("\\t"),
            c if (c as u32) < 0x20 => out.push_str(&format!("\\u{:04x}", c as u32)),
            c => out.push(c),
        }
    }
    out.push('"');
}
