use super::engine::{self, Codec, Tier};

pub fn main<C: Codec>() {
    let args: Vec<String> = std::env::args().collect();
    engine::install_panic_hook();
    engine::start_watchdog();
    if args.len() < 3 {
        eprintln!("usage: verif <Cnn> quick|thorough | verif replay <file> | verif selftest x");
        std::process::exit(2);
    }
    let code = match args[1].as_str() {
        "fuzzone" => {
            // run one libFuzzer input (entropy tape) through a fuzz target: verif fuzzone <Cnn:name> <file>
            let data =
                std::fs::read(args.get(3).map(|s| s.as_str()).unwrap_or("")).unwrap_or_default();
            super::fuzz::run::<C>(&args[2], &data);
            println!("fuzzone: no violation");
            0
        }
        "replay" => {
            let text = match std::fs::read_to_string(&args[2]) {
                Ok(t) => t,
                Err(e) => {
                    println!("INCONCLUSIVE cannot read {}: {e}", args[2]);
                    std::process::exit(2);
                }
            };
            super::props::replay::<C>(&text)
        }
        id => {
            let tier = match args[2].as_str() {
                "quick" => Tier::Quick,
                "thorough" => Tier::Thorough,
                other => {
                    eprintln!("unknown tier {other}");
                    std::process::exit(2);
                }
            };
            super::props::run_property::<C>(id, tier)
        }
    };
    std::process::exit(code);
}
