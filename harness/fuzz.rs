//! coverage-guided fuzzing entries. (1) byte-level targets decode the libFuzzer input directly into a case of the
//! sub-check (link streams, transport segment lists, application fragments) - structure-aware, oracle inside;
//! (2) every other sub-check is reachable as a coverage-guided *seed search* over its own proptest strategy.
//! A failure is saved as an ordinary replay file and the process aborts so that libFuzzer keeps the input.
use super::engine::*;
use super::props::*;
use proptest::strategy::{Strategy, ValueTree};
use proptest::test_runner::{Config, RngAlgorithm, TestRng, TestRunner};
use std::sync::atomic::{AtomicU64, Ordering};
use std::sync::Mutex;

pub static EXECS: AtomicU64 = AtomicU64::new(0);
pub static REJECTED: AtomicU64 = AtomicU64::new(0);
static STATS: Mutex<Option<Stats>> = Mutex::new(None);

fn one<C: Codec, P: Prop>(data: &[u8], tier: Tier) {
    // proptest's pass-through RNG halves its tape at every lazily built alternative of a prop_oneof! and runs dry
    // (rejection sampling then spins on zeros), so the input is used as the *seed* of the generator's ChaCha stream:
    // inputs of up to 32 octets are used verbatim (byte mutations = neighbouring seeds), longer ones are folded.
    // libFuzzer keeps the seeds that reach new coverage - a coverage-guided seed search. The byte-level targets
    // (C06:raw, C08:raw, C09:raw) below decode the input directly instead.
    let mut seed = [0u8; 32];
    for (i, b) in data.iter().enumerate() {
        seed[i % 32] = seed[i % 32].rotate_left(3) ^ *b;
    }
    let rng = TestRng::from_seed(RngAlgorithm::ChaCha, &seed);
    let mut runner = TestRunner::new_with_rng(
        Config {
            failure_persistence: None,
            ..Config::default()
        },
        rng,
    );
    let case = match P::strategy(tier).new_tree(&mut runner) {
        Ok(t) => t.current(),
        Err(_) => {
            REJECTED.fetch_add(1, Ordering::Relaxed);
            return;
        }
    };
    judge::<C, P>(&case);
}

/// run one case of sub-check P, account for it, and stop the process on an unlisted violation
fn judge<C: Codec, P: Prop>(case: &P::Case) {
    let n = EXECS.fetch_add(1, Ordering::Relaxed) + 1;
    if n == 1 {
        install_panic_hook();
    }
    let out = run_case::<P>(case);
    {
        let mut g = STATS.lock().unwrap();
        let st = g.get_or_insert_with(Stats::default);
        st.evaluations += 1;
        for l in &out.labels {
            *st.labels.entry(l.clone()).or_default() += 1;
        }
        if out.nontrivial {
            let js = C::to_string(case);
            if st.nontrivial_hashes.insert(hash_str(&js)) && st.samples.len() < 2 {
                st.samples.push(J::Raw(js));
            }
        }
        if n.is_power_of_two() || n % 20_000 == 0 {
            write_stats::<P>(st);
        }
    }
    if let Some(f) = out.fail {
        let known = load_known::<C>(P::ID);
        if match_known(&known, &f).is_some() {
            return;
        }
        if is_harness_panic(&f.detail) {
            println!(
                "INCONCLUSIVE property={} harness panic while fuzzing: {}",
                P::ID,
                f.detail
            );
            std::process::exit(2);
        }
        let case_js = C::to_string(case);
        let body = J::o(vec![
            ("property", J::s(P::ID)),
            ("check", J::s(P::NAME)),
            ("clause", J::s(&f.clause)),
            ("detail", J::s(&f.detail)),
            ("sig", J::s(&f.sig)),
            ("seed", J::U(0)),
            ("found_by", J::s("libFuzzer (coverage-guided seed search)")),
            ("case", J::Raw(case_js.clone())),
        ]);
        let dir = format!("/verif/replays/{}", P::ID);
        let _ = std::fs::create_dir_all(&dir);
        let path = format!("{}/{}-fuzz-{:016x}.json", dir, P::NAME, hash_str(&case_js));
        let _ = std::fs::write(&path, body.render());
        println!(
            "  check={} clause={} sig={}\n  detail={}",
            P::NAME,
            f.clause,
            f.sig,
            truncate(&f.detail, 800)
        );
        println!("VIOLATION property={} replay={}", P::ID, path);
        if let Some(st) = STATS.lock().unwrap().as_ref() {
            write_stats::<P>(st);
        }
        // make libFuzzer keep the input as a crash artifact
        std::process::abort();
    }
}

fn write_stats<P: Prop>(st: &Stats) {
    write_stats_named(P::ID, P::NAME, st)
}

fn write_stats_named(id: &str, name: &str, st: &Stats) {
    let labels = J::O(
        st.labels
            .iter()
            .map(|(k, v)| (k.clone(), J::U(*v)))
            .collect(),
    );
    let j = J::o(vec![
        ("property", J::s(id)),
        ("check", J::s(name)),
        ("executions", J::U(st.evaluations)),
        (
            "distinct_nontrivial",
            J::U(st.nontrivial_hashes.len() as u64),
        ),
        ("rejected_tapes", J::U(REJECTED.load(Ordering::Relaxed))),
        ("labels", labels),
        ("samples", J::A(st.samples.clone())),
    ]);
    let _ = std::fs::create_dir_all("/verif/fuzz/stats");
    let _ = std::fs::write(
        format!(
            "/verif/fuzz/stats/{}-{}-{}.json",
            id,
            name,
            std::process::id()
        ),
        j.render(),
    );
}

// ---------------------------------------------------------------------------------------------
// byte-level targets

use arbitrary::Unstructured;

fn raw_c06(u: &mut Unstructured) -> arbitrary::Result<c06::Case> {
    use c06::{Chunking, Item, F};
    let flags: u8 = u.arbitrary()?;
    let frame = |u: &mut Unstructured| -> arbitrary::Result<F> {
        let ctrl: u8 = u.arbitrary()?;
        let dst: u16 = u.arbitrary()?;
        let src: u16 = u.arbitrary()?;
        let n = (u.arbitrary::<u8>()? as usize).min(250);
        let payload = u.bytes(n.min(u.len()))?.to_vec();
        Ok(F {
            ctrl,
            dst,
            src,
            payload,
        })
    };
    let mut items = vec![];
    while !u.is_empty() && items.len() < 24 {
        let tag: u8 = u.arbitrary()?;
        items.push(match tag % 8 {
            0 | 1 | 2 => Item::Frame(frame(u)?),
            3 => {
                let n = (u.arbitrary::<u8>()? as usize) % 40;
                Item::Noise(u.bytes(n.min(u.len()))?.to_vec())
            }
            4 => Item::Lone05,
            5 => Item::Sync,
            6 => Item::Truncated(frame(u)?, u.arbitrary()?),
            _ => {
                let f = frame(u)?;
                let k = 1 + (u.arbitrary::<u8>()? % 3) as usize;
                let mut bits = vec![];
                for _ in 0..k {
                    bits.push(u.arbitrary()?);
                }
                Item::Flipped(f, bits)
            }
        });
    }
    let chunking = match (flags >> 2) % 4 {
        0 => Chunking::Whole,
        1 => Chunking::OneByte,
        2 => Chunking::Sizes(vec![1 + (flags as u16 >> 4), 3, 17, 290]),
        _ => Chunking::ItemSplit(vec![(flags as u16) << 8, 0x8000, 0x2000]),
    };
    Ok(c06::Case {
        discard: flags & 1 != 0,
        datagram: flags & 2 != 0 && flags & 0x80 != 0,
        frag_size: if flags & 0x40 != 0 { 249 } else { 2048 },
        items,
        chunking,
    })
}

fn raw_c08(u: &mut Unstructured) -> arbitrary::Result<c08::Case> {
    use c08::Mutation;
    let rx_buffer = 249 + u.arbitrary::<u16>()? % 1800;
    let nf = 1 + (u.arbitrary::<u8>()? % 5) as usize;
    let mut fragments = vec![];
    for _ in 0..nf {
        let len = 1 + u.arbitrary::<u16>()? % 2048;
        fragments.push((u.arbitrary::<u8>()? & 1, len, u.arbitrary()?));
    }
    let start_seq = (u.arbitrary::<u8>()? & 0x3F, u.arbitrary::<u8>()? & 0x3F);
    let mode: u8 = u.arbitrary()?;
    let interleave = mode % 4 == 0;
    let datagram = mode & 0x10 != 0;
    let chunk = if mode & 0x20 != 0 {
        1 + (mode as u16 >> 6) * 97
    } else {
        0
    };
    let interrupts: Vec<u16> = if mode & 0x08 != 0 {
        vec![u.arbitrary()?, u.arbitrary()?]
    } else {
        vec![]
    };
    let mut mutations = vec![];
    while !u.is_empty() && mutations.len() < 6 {
        let i: u16 = u.arbitrary()?;
        mutations.push(match u.arbitrary::<u8>()? % 11 {
            0 => Mutation::Drop(i),
            1 => Mutation::Dup(i),
            2 => Mutation::Swap(i),
            3 => Mutation::Readdress(i),
            4 => Mutation::ToggleFir(i),
            5 => Mutation::ToggleFin(i),
            6 => Mutation::Seq(i, u.arbitrary()?),
            7 => Mutation::Broadcast(i, u.arbitrary::<u8>()? % 3),
            8 => Mutation::Peer(i),
            9 => Mutation::PartialDatagram(i),
            _ => Mutation::EmptyFrame(i),
        });
    }
    Ok(c08::Case {
        rx_buffer,
        fragments,
        start_seq,
        interleave,
        mutations,
        chunk,
        datagram,
        interrupts,
    })
}

/// an application fragment given as raw octets: C09 accept=>exact and the C01 no-panic consumers
fn raw_app<C: Codec>(data: &[u8]) {
    let n = EXECS.fetch_add(1, Ordering::Relaxed) + 1;
    if n == 1 {
        install_panic_hook();
    }
    let _ = take_panic();
    let r = std::panic::catch_unwind(|| {
        let out = c09::run_bytes(data);
        let _ = c01::exercise_fragment(data, false);
        let _ = c01::exercise_fragment(data, true);
        crate::app::parse::options::ParseOptions::parse_zero_length_strings(false);
        out
    });
    let fail = match r {
        Ok(out) => {
            let mut g = STATS.lock().unwrap();
            let st = g.get_or_insert_with(Stats::default);
            st.evaluations += 1;
            for l in &out.labels {
                *st.labels.entry(l.clone()).or_default() += 1;
            }
            if out.nontrivial
                && st
                    .nontrivial_hashes
                    .insert(xxhash_rust::xxh64::xxh64(data, 3))
                && st.samples.len() < 2
            {
                st.samples.push(J::s(&format!("{:02x?}", data)));
            }
            if n.is_power_of_two() || n % 20_000 == 0 {
                write_stats_named("C09", "raw", st);
            }
            out.fail
        }
        Err(_) => Some(panic_fail(
            &take_panic().unwrap_or_else(|| "panic@?".into()),
        )),
    };
    if let Some(f) = fail {
        // as a replay: a fragment specification that reproduces exactly these octets
        let spec = fraggen::FragSpec {
            ctrl: 0,
            func: 0,
            iin: (0, 0),
            headers: vec![],
            muts: vec![
                fraggen::Mutation::Truncate(0),
                fraggen::Mutation::Extend(data.to_vec()),
            ],
        };
        let case_js = C::to_string(&spec);
        let body = J::o(vec![
            ("property", J::s("C09")),
            ("check", J::s("accept_exact")),
            ("clause", J::s(&f.clause)),
            ("detail", J::s(&f.detail)),
            ("sig", J::s(&f.sig)),
            ("seed", J::U(0)),
            ("found_by", J::s("libFuzzer (raw application fragment)")),
            ("case", J::Raw(case_js.clone())),
        ]);
        let _ = std::fs::create_dir_all("/verif/replays/C09");
        let path = format!(
            "/verif/replays/C09/accept_exact-fuzz-{:016x}.json",
            hash_str(&case_js)
        );
        let _ = std::fs::write(&path, body.render());
        println!(
            "  check=raw_app clause={} sig={}\n  detail={}",
            f.clause,
            f.sig,
            truncate(&f.detail, 800)
        );
        println!("VIOLATION property=C09 replay={}", path);
        std::process::abort();
    }
}

/// byte-level targets; returns false if `target` is not one of them
fn run_raw<C: Codec>(target: &str, data: &[u8]) -> bool {
    match target {
        "C06:raw" => {
            if let Ok(case) = raw_c06(&mut Unstructured::new(data)) {
                judge::<C, c06::Stream>(&case);
            }
        }
        "C08:raw" => {
            if let Ok(case) = raw_c08(&mut Unstructured::new(data)) {
                judge::<C, c08::Mutated>(&case);
            }
        }
        "C09:raw" | "C01:raw" => raw_app::<C>(data),
        _ => return false,
    }
    true
}

pub const RAW_TARGETS: [&str; 3] = ["C06:raw", "C08:raw", "C09:raw"];

macro_rules! targets {
    ($( $id:literal : $name:literal => $ty:ty ),* $(,)?) => {
        /// every fuzzable sub-check as "Cnn:name"
        pub fn target_names() -> Vec<String> {
            let mut v = vec![$( format!("{}:{}", $id, $name) ),*];
            v.extend(RAW_TARGETS.iter().map(|s| s.to_string()));
            v
        }
        /// run one libFuzzer input against the sub-check selected by `target` ("Cnn:name")
        pub fn run<C: Codec>(target: &str, data: &[u8]) {
            if run_raw::<C>(target, data) {
                return;
            }
            match target {
                $( t if t == concat!($id, ":", $name) => one::<C, $ty>(data, Tier::Quick), )*
                _ => {
                    println!("INCONCLUSIVE unknown fuzz target {target}; known: {:?}", target_names());
                    std::process::exit(2);
                }
            }
        }
    };
}

targets! {
    "C01":"parsers" => c01::Parsers, "C01":"stack" => c01::Stack, "C01":"outstation_script" => c01::OutstationScript, "C01":"master_script" => c01m::MasterScript,
    "C02":"converge" => c02::Converge,
    "C03":"ledger" => c03::Ledger,
    "C04":"sbo" => c04::Sbo,
    "C05":"repeat" => c05::Repeat,
    "C06":"stream" => c06::Stream, "C06":"biterrors" => c06::BitErrors, "C06":"sessions" => c06::Sessions,
    "C07":"fcb" => c07::Fcb, "C07":"session" => c07::Sess,
    "C08":"mutated" => c08::Mutated,
    "C09":"accept_exact" => c09::AcceptExact, "C09":"requests" => c09::Requests, "C09":"writers" => c09::Writers, "C09":"attr_values" => c09a::AttrValues, "C09":"attr_responses" => c09a::AttrResponses, "C09":"echoes" => c09e::Echoes,
    "C10":"trip" => c10::Trip,
    "C11":"snapshot" => c11::Snapshot,
    "C12":"replies" => c12::Replies,
    "C13":"iin" => c13::Iin,
    "C14":"unsolicited" => c14::Unsol, "C14":"long_delays" => c14::LongDelays,
    "C15":"accept" => c15::Accept,
    "C16":"commands" => c16::Commands, "C16":"outcomes" => c16::Outcomes,
    "C17":"startup" => c17::Startup,
    "C18":"accuracy" => c18::Accuracy, "C18":"unexpected" => c18u::Unexpected,
    "C19":"schedule" => c19::Sched,
}
