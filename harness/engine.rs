//! Runner: proptest-driven generation, classification, shrinking, replay files, known findings, evidence.
pub use super::json::J;
use proptest::strategy::{BoxedStrategy, Strategy, ValueTree};
use proptest::test_runner::{
    Config, RngAlgorithm, RngSeed, TestCaseError, TestError, TestRng, TestRunner,
};
use serde::de::DeserializeOwned;
use serde::{Deserialize, Serialize};

/// JSON text codec, supplied by the binary crate (serde_json must not be linked into the dnp3 crate itself:
/// its `impl PartialEq<Value> for u32` makes an inference in master/tasks/file/close.rs ambiguous)
pub trait Codec: 'static {
    fn to_string<T: Serialize>(t: &T) -> String;
    fn from_str<T: DeserializeOwned>(s: &str) -> Result<T, String>;
}
use std::cell::RefCell;
use std::collections::{BTreeMap, HashSet};
use std::sync::atomic::{AtomicBool, AtomicU64, Ordering};
use std::sync::{Arc, Mutex};

#[derive(Copy, Clone, Debug, PartialEq, Eq)]
pub enum Tier {
    Quick,
    Thorough,
}

impl Tier {
    pub fn name(self) -> &'static str {
        match self {
            Tier::Quick => "quick",
            Tier::Thorough => "thorough",
        }
    }
}

/// a failed oracle clause
#[derive(Clone, Debug)]
pub struct Fail {
    /// short identifier of the violated clause, e.g. "L1-release-without-confirmed-carrier"
    pub clause: String,
    /// human readable detail
    pub detail: String,
    /// signature matched against /verif/known_findings.json (defaults to the clause)
    pub sig: String,
}

impl Fail {
    pub fn new(clause: &str, detail: impl Into<String>) -> Self {
        Self {
            clause: clause.to_string(),
            detail: detail.into(),
            sig: clause.to_string(),
        }
    }
    pub fn with_sig(mut self, sig: impl Into<String>) -> Self {
        self.sig = sig.into();
        self
    }
}

#[derive(Default, Debug)]
pub struct CaseOut {
    pub labels: Vec<String>,
    pub nontrivial: bool,
    pub fail: Option<Fail>,
}

impl CaseOut {
    pub fn label(&mut self, l: impl Into<String>) {
        let l = l.into();
        if !self.labels.contains(&l) {
            self.labels.push(l);
        }
    }
    pub fn fail(&mut self, f: Fail) {
        if self.fail.is_none() {
            self.fail = Some(f);
        }
    }
    pub fn failed(&self) -> bool {
        self.fail.is_some()
    }
}

/// One generated-input property
pub trait Prop: 'static {
    type Case: std::fmt::Debug + Clone + Serialize + DeserializeOwned + Send + 'static;
    const ID: &'static str;
    /// name of this sub-check (a property can have several generators/oracles)
    const NAME: &'static str;
    fn rule() -> &'static str;
    fn strategy(tier: Tier) -> BoxedStrategy<Self::Case>;
    fn cases(tier: Tier) -> u32;
    fn run(case: &Self::Case) -> CaseOut;
    /// labels that must appear in at least this fraction (per mille) of cases, else generator-health failure
    fn floors() -> Vec<(&'static str, u32)> {
        vec![]
    }
    /// remember the case being executed so that the watchdog can save it if it never returns
    const TRACK_STALL: bool = false;
    /// upper bound on shrink steps (sub-checks whose failing cases are slow - wall-clock waits - set it low)
    const MAX_SHRINK_ITERS: u32 = 3000;
}

/// cases currently executing on worker threads (only for sub-checks with TRACK_STALL)
pub static RUNNING: Mutex<
    Vec<(
        std::thread::ThreadId,
        std::time::Instant,
        String,
        String,
        String,
    )>,
> = Mutex::new(Vec::new());

// ---------------------------------------------------------------------------------------------
// panic capture

thread_local! {
    static LAST_PANIC: RefCell<Option<String>> = RefCell::new(None);
}

pub fn install_panic_hook() {
    std::panic::set_hook(Box::new(|info| {
        let loc = info
            .location()
            .map(|l| format!("{}:{}", l.file(), l.line()))
            .unwrap_or_else(|| "?".to_string());
        let msg = if let Some(s) = info.payload().downcast_ref::<&str>() {
            s.to_string()
        } else if let Some(s) = info.payload().downcast_ref::<String>() {
            s.clone()
        } else {
            "<non-string panic>".to_string()
        };
        let text = format!("panic@{loc}: {msg}");
        LAST_PANIC.with(|p| {
            let mut p = p.borrow_mut();
            if p.is_none() {
                *p = Some(text);
            }
        });
    }));
}

pub fn take_panic() -> Option<String> {
    LAST_PANIC.with(|p| p.borrow_mut().take())
}

pub fn peek_panic() -> Option<String> {
    LAST_PANIC.with(|p| p.borrow().clone())
}

/// a panic text as a failure; the signature keeps file:line (specific) with the /repo prefix stripped
pub fn panic_fail(text: &str) -> Fail {
    let short = text.replace("/repo/dnp3/src/", "");
    Fail {
        clause: "panic".into(),
        detail: text.to_string(),
        sig: short,
    }
}

pub fn is_harness_panic(text: &str) -> bool {
    text.contains("verif/harness")
}

pub fn run_case<P: Prop>(case: &P::Case) -> CaseOut {
    let _ = take_panic();
    let r = std::panic::catch_unwind(std::panic::AssertUnwindSafe(|| P::run(case)));
    match r {
        Ok(mut out) => {
            // a panic inside a spawned library task is caught by tokio; rigs normally report it, this is the safety net
            if let Some(p) = take_panic() {
                if out.fail.is_none() {
                    out.fail = Some(panic_fail(&p));
                }
            }
            out
        }
        Err(_) => {
            let p = take_panic().unwrap_or_else(|| "panic@?: <unknown>".to_string());
            CaseOut {
                labels: vec!["panicked".into()],
                nontrivial: true,
                fail: Some(panic_fail(&p)),
            }
        }
    }
}

// ---------------------------------------------------------------------------------------------
// known findings

#[derive(Clone, Debug, Deserialize)]
pub struct Known {
    pub id: String,
    pub properties: Vec<String>,
    /// every one of these substrings must occur in the failure signature
    pub match_all: Vec<String>,
    pub what: String,
}

#[derive(Clone, Debug, Deserialize, Default)]
pub struct KnownFile {
    #[serde(default)]
    pub findings: Vec<Known>,
    #[serde(default)]
    pub fixed: Vec<String>,
}

pub fn load_known<C: Codec>(property: &str) -> Vec<Known> {
    let text = match std::fs::read_to_string("/verif/known_findings.json") {
        Ok(t) => t,
        Err(_) => return vec![],
    };
    match C::from_str::<KnownFile>(&text) {
        Ok(f) => f
            .findings
            .into_iter()
            .filter(|k| k.properties.iter().any(|p| p == property))
            .collect(),
        Err(e) => {
            println!("INCONCLUSIVE known_findings.json does not parse: {e}");
            std::process::exit(2);
        }
    }
}

pub fn match_known<'a>(known: &'a [Known], f: &Fail) -> Option<&'a Known> {
    known
        .iter()
        .find(|k| !k.match_all.is_empty() && k.match_all.iter().all(|s| f.sig.contains(s.as_str())))
}

// ---------------------------------------------------------------------------------------------
// statistics

#[derive(Default)]
pub struct Stats {
    pub evaluations: u64,
    pub nontrivial_hashes: HashSet<u64>,
    pub labels: BTreeMap<String, u64>,
    pub samples: Vec<J>,
    pub known_hits: BTreeMap<String, u64>,
    pub exhaustive: Vec<J>,
    pub replays_run: u64,
}

impl Stats {
    pub fn merge(&mut self, other: Stats) {
        self.evaluations += other.evaluations;
        self.nontrivial_hashes.extend(other.nontrivial_hashes);
        for (k, v) in other.labels {
            *self.labels.entry(k).or_default() += v;
        }
        let mut budget = 3;
        for s in other.samples {
            if budget > 0 && self.samples.len() < 12 {
                self.samples.push(s);
                budget -= 1;
            }
        }
        for (k, v) in other.known_hits {
            *self.known_hits.entry(k).or_default() += v;
        }
        self.exhaustive.extend(other.exhaustive);
        self.replays_run += other.replays_run;
    }
}

pub fn hash_str(s: &str) -> u64 {
    xxhash_rust::xxh64::xxh64(s.as_bytes(), 7)
}

pub struct Violation {
    pub property: String,
    pub check: String,
    pub clause: String,
    pub detail: String,
    pub sig: String,
    /// JSON text of the (shrunk) case
    pub case: String,
    pub seed: u64,
}

#[derive(Deserialize)]
pub struct ReplayHead {
    pub property: String,
    pub check: String,
}

#[derive(Deserialize)]
pub struct ReplayBody<T> {
    pub case: T,
}

pub fn seed_from_env() -> u64 {
    std::env::var("VERIF_SEED")
        .ok()
        .and_then(|s| s.parse::<u64>().ok())
        .unwrap_or(20260925)
}

fn rng_seed_bytes(seed: u64, salt: u64) -> [u8; 32] {
    let mut out = [0u8; 32];
    let mut x = seed ^ salt.wrapping_mul(0x9E3779B97F4A7C15);
    for chunk in out.chunks_mut(8) {
        // splitmix64
        x = x.wrapping_add(0x9E3779B97F4A7C15);
        let mut z = x;
        z = (z ^ (z >> 30)).wrapping_mul(0xBF58476D1CE4E5B9);
        z = (z ^ (z >> 27)).wrapping_mul(0x94D049BB133111EB);
        z ^= z >> 31;
        chunk.copy_from_slice(&z.to_le_bytes());
    }
    out
}

pub static STOP: AtomicBool = AtomicBool::new(false);
pub static HEARTBEAT: AtomicU64 = AtomicU64::new(0);

pub fn beat() {
    HEARTBEAT.fetch_add(1, Ordering::Relaxed);
}

fn sample_json<C: Codec, T: Serialize>(case: &T) -> J {
    let s = C::to_string(case);
    if s.len() > 4000 {
        J::S(format!("{}… ({} chars)", truncate(&s, 4000), s.len()))
    } else {
        J::Raw(s)
    }
}

/// generated search for one sub-check on one worker
fn worker<C: Codec, P: Prop>(
    tier: Tier,
    seed: u64,
    salt: u64,
    cases: u32,
    known: &[Known],
) -> (Stats, Option<Violation>) {
    let mut stats = Stats::default();
    let config = Config {
        cases,
        failure_persistence: None,
        max_shrink_iters: P::MAX_SHRINK_ITERS,
        max_global_rejects: 100_000,
        ..Config::default()
    };
    let rng = TestRng::from_seed(
        RngAlgorithm::ChaCha,
        &rng_seed_bytes(seed, salt ^ hash_str(P::NAME)),
    );
    let mut runner = TestRunner::new_with_rng(config, rng);
    let strategy = P::strategy(tier);
    let failed = std::cell::Cell::new(false);
    let last_fail: RefCell<Option<Fail>> = RefCell::new(None);
    let result = {
        let stats_cell = RefCell::new(&mut stats);
        runner.run(&strategy, |case| {
            if STOP.load(Ordering::Relaxed) && !failed.get() {
                return Ok(());
            }
            beat();
            if P::TRACK_STALL {
                let me = std::thread::current().id();
                let mut r = RUNNING.lock().unwrap();
                r.retain(|x| x.0 != me);
                r.push((
                    me,
                    std::time::Instant::now(),
                    P::ID.to_string(),
                    P::NAME.to_string(),
                    C::to_string(&case),
                ));
            }
            let out = run_case::<P>(&case);
            if P::TRACK_STALL {
                let me = std::thread::current().id();
                RUNNING.lock().unwrap().retain(|x| x.0 != me);
            }
            let counting = !failed.get();
            if counting {
                let mut st = stats_cell.borrow_mut();
                st.evaluations += 1;
                for l in &out.labels {
                    *st.labels.entry(l.clone()).or_default() += 1;
                }
                if out.nontrivial {
                    let js = C::to_string(&case);
                    if st.nontrivial_hashes.insert(hash_str(&js)) && st.samples.len() < 2 {
                        let d = sample_json::<C, _>(&case);
                        st.samples.push(J::o(vec![
                            ("check", J::s(P::NAME)),
                            ("labels", J::strs(out.labels.clone())),
                            ("case", d),
                        ]));
                    }
                }
            }
            if let Some(f) = out.fail {
                if let Some(k) = match_known(known, &f) {
                    if counting {
                        *stats_cell
                            .borrow_mut()
                            .known_hits
                            .entry(k.id.clone())
                            .or_default() += 1;
                    }
                    return Ok(());
                }
                failed.set(true);
                *last_fail.borrow_mut() = Some(f.clone());
                return Err(TestCaseError::fail(format!("{}: {}", f.clause, f.detail)));
            }
            Ok(())
        })
    };
    match result {
        Ok(()) => (stats, None),
        Err(TestError::Fail(_reason, value)) => {
            // re-run the minimal case to get its clause (the last failure seen may belong to a larger case)
            let out = run_case::<P>(&value);
            let f = out
                .fail
                .filter(|f| match_known(known, f).is_none())
                .or_else(|| last_fail.borrow().clone())
                .unwrap_or_else(|| Fail::new("unknown", "shrunk case no longer fails"));
            let v = Violation {
                property: P::ID.into(),
                check: P::NAME.into(),
                clause: f.clause,
                detail: f.detail,
                sig: f.sig,
                case: C::to_string(&value),
                seed,
            };
            (stats, Some(v))
        }
        Err(TestError::Abort(reason)) => {
            println!(
                "INCONCLUSIVE property={} check={} proptest aborted: {}",
                P::ID,
                P::NAME,
                reason
            );
            std::process::exit(2);
        }
    }
}

/// context shared by all sub-checks of one property run
pub struct Ctx<C: Codec> {
    pub property: &'static str,
    pub tier: Tier,
    pub seed: u64,
    pub stats: Stats,
    pub known: Vec<Known>,
    pub violations: Vec<Violation>,
    pub rules: Vec<String>,
    pub health: Vec<String>,
    pub started: std::time::Instant,
    pub assumptions: Vec<String>,
    _c: std::marker::PhantomData<C>,
}

pub fn threads_for(tier: Tier) -> usize {
    match tier {
        Tier::Quick => std::env::var("VERIF_QUICK_THREADS")
            .ok()
            .and_then(|s| s.parse().ok())
            .unwrap_or(8),
        Tier::Thorough => std::env::var("VERIF_THREADS")
            .ok()
            .and_then(|s| s.parse().ok())
            .unwrap_or(16),
    }
}

impl<C: Codec> Ctx<C> {
    pub fn new(property: &'static str, tier: Tier) -> Self {
        Ctx {
            property,
            tier,
            seed: seed_from_env(),
            stats: Stats::default(),
            known: load_known::<C>(property),
            violations: vec![],
            rules: vec![],
            health: vec![],
            started: std::time::Instant::now(),
            assumptions: vec![],
            _c: std::marker::PhantomData,
        }
    }

    /// run the saved replays for this sub-check, then the generated search
    pub fn run<P: Prop>(&mut self) {
        assert_eq!(P::ID, self.property);
        // development aid: VERIF_ONLY=<sub-check name> runs just that sub-check
        if let Ok(only) = std::env::var("VERIF_ONLY") {
            if only != P::NAME {
                return;
            }
        }
        self.rules.push(format!("[{}] {}", P::NAME, P::rule()));
        if !self.violations.is_empty() {
            return;
        }
        self.run_replays::<P>();
        if !self.violations.is_empty() {
            return;
        }
        let total = scaled(P::cases(self.tier));
        let nthreads = threads_for(self.tier).max(1).min(total.max(1) as usize);
        let per = (total as usize + nthreads - 1) / nthreads;
        let results: Mutex<Vec<(Stats, Option<Violation>)>> = Mutex::new(vec![]);
        let known = self.known.clone();
        let (tier, seed) = (self.tier, self.seed);
        std::thread::scope(|s| {
            for i in 0..nthreads {
                let known = &known;
                let results = &results;
                std::thread::Builder::new()
                    .stack_size(16 << 20)
                    .spawn_scoped(s, move || {
                        let r = worker::<C, P>(tier, seed, i as u64, per as u32, known);
                        if r.1.is_some() {
                            STOP.store(true, Ordering::Relaxed);
                        }
                        results.lock().unwrap().push(r);
                    })
                    .unwrap();
            }
        });
        STOP.store(false, Ordering::Relaxed);
        let mut sub = Stats::default();
        for (st, v) in results.into_inner().unwrap() {
            sub.merge(st);
            if let Some(v) = v {
                self.violations.push(v);
            }
        }
        // generator health floors (only meaningful when the search ran to completion)
        if self.violations.is_empty() && sub.evaluations > 0 {
            for (label, permille) in P::floors() {
                let n = sub.labels.get(label).copied().unwrap_or(0);
                if n * 1000 < (permille as u64) * sub.evaluations {
                    self.health.push(format!(
                        "[{}] label '{}' seen in {} of {} cases (< {} per mille)",
                        P::NAME,
                        label,
                        n,
                        sub.evaluations,
                        permille
                    ));
                }
            }
        }
        // prefix labels with the sub-check name
        let mut renamed = Stats::default();
        renamed.evaluations = sub.evaluations;
        renamed.nontrivial_hashes = sub.nontrivial_hashes;
        renamed.samples = sub.samples;
        renamed.known_hits = sub.known_hits;
        for (k, v) in sub.labels {
            renamed.labels.insert(format!("{}:{}", P::NAME, k), v);
        }
        self.stats.merge(renamed);
    }

    fn run_replays<P: Prop>(&mut self) {
        let dir = format!("/verif/replays/{}", P::ID);
        let mut files: Vec<_> = match std::fs::read_dir(&dir) {
            Ok(rd) => rd
                .filter_map(|e| e.ok())
                .map(|e| e.path())
                .filter(|p| p.extension().map(|x| x == "json").unwrap_or(false))
                .collect(),
            Err(_) => return,
        };
        files.sort();
        for f in files {
            let text = match std::fs::read_to_string(&f) {
                Ok(t) => t,
                Err(_) => continue,
            };
            match C::from_str::<ReplayHead>(&text) {
                Ok(h) if h.check == P::NAME && h.property == P::ID => {}
                _ => continue,
            }
            let case: P::Case = match C::from_str::<ReplayBody<P::Case>>(&text) {
                Ok(c) => c.case,
                Err(e) => {
                    println!(
                        "note: replay {} no longer deserialises ({e}); skipped",
                        f.display()
                    );
                    continue;
                }
            };
            self.stats.replays_run += 1;
            beat();
            let out = run_case::<P>(&case);
            if let Some(fail) = out.fail {
                if let Some(k) = match_known(&self.known, &fail) {
                    *self.stats.known_hits.entry(k.id.clone()).or_default() += 1;
                    continue;
                }
                self.violations.push(Violation {
                    property: P::ID.into(),
                    check: P::NAME.into(),
                    clause: fail.clause,
                    detail: fail.detail,
                    sig: fail.sig,
                    case: C::to_string(&case),
                    seed: self.seed,
                });
                return;
            }
        }
    }

    /// record a completely enumerated sub-domain; `f` returns (evaluations, samples, optional failure with its case as JSON)
    pub fn exhaustive(&mut self, name: &str, f: impl FnOnce() -> (u64, Vec<J>, Option<(Fail, J)>)) {
        self.rules.push(format!(
            "[exhaustive] {name}: every element is a distinct case"
        ));
        if !self.violations.is_empty() {
            return;
        }
        let _ = take_panic();
        let r = std::panic::catch_unwind(std::panic::AssertUnwindSafe(f));
        let (n, samples, fail) = match r {
            Ok(x) => x,
            Err(_) => {
                let p = take_panic().unwrap_or_default();
                (
                    0,
                    vec![],
                    Some((panic_fail(&p), J::o(vec![("exhaustive", J::s(name))]))),
                )
            }
        };
        self.stats.evaluations += n;
        self.stats.exhaustive.push(J::o(vec![
            ("name", J::s(name)),
            ("evaluations", J::U(n)),
            ("exhaustive", J::Bool(fail.is_none())),
        ]));
        for s in samples.into_iter().take(2) {
            self.stats
                .samples
                .push(J::o(vec![("check", J::s(name)), ("case", s)]));
        }
        // every enumerated element is distinct by construction
        for i in 0..n {
            self.stats
                .nontrivial_hashes
                .insert(hash_str(&format!("{name}#{i}")));
        }
        if let Some((fail, case)) = fail {
            if let Some(k) = match_known(&self.known, &fail) {
                *self.stats.known_hits.entry(k.id.clone()).or_default() += 1;
                return;
            }
            self.violations.push(Violation {
                property: self.property.into(),
                check: format!("exhaustive:{}", truncate(name, 40)),
                clause: fail.clause,
                detail: fail.detail,
                sig: fail.sig,
                case: case.render(),
                seed: self.seed,
            });
        }
    }

    /// write evidence, print result lines, return the exit code
    pub fn finish(self) -> i32 {
        let wall = self.started.elapsed().as_secs_f64();
        // harness bugs are never reported as violations
        for v in &self.violations {
            if is_harness_panic(&v.detail) {
                println!(
                    "INCONCLUSIVE property={} harness panic: {}",
                    self.property, v.detail
                );
                return 2;
            }
        }
        let mut replay_paths = vec![];
        for v in &self.violations {
            let body = J::o(vec![
                ("property", J::s(&v.property)),
                ("check", J::s(&v.check)),
                ("clause", J::s(&v.clause)),
                ("detail", J::s(&v.detail)),
                ("sig", J::s(&v.sig)),
                ("seed", J::U(v.seed)),
                ("case", J::Raw(v.case.clone())),
            ]);
            let dir = format!("/verif/replays/{}", v.property);
            let _ = std::fs::create_dir_all(&dir);
            let safe: String = v
                .check
                .chars()
                .map(|c| if c.is_ascii_alphanumeric() { c } else { '_' })
                .collect();
            let path = format!("{}/{}-{:016x}.json", dir, safe, hash_str(&v.case));
            // a saved replay that fails again is reported, not rewritten
            if !std::path::Path::new(&path).exists() {
                let _ = std::fs::write(&path, body.render());
            }
            replay_paths.push(path);
        }
        let known_lines: Vec<String> = self
            .known
            .iter()
            .filter(|k| self.stats.known_hits.get(&k.id).copied().unwrap_or(0) > 0)
            .map(|k| {
                format!(
                    "KNOWN-FINDING: property={} {} [{}] hits={}",
                    self.property, k.what, k.id, self.stats.known_hits[&k.id]
                )
            })
            .collect();
        let labels = J::O(
            self.stats
                .labels
                .iter()
                .map(|(k, v)| (k.clone(), J::U(*v)))
                .collect(),
        );
        let known_hits = J::O(
            self.stats
                .known_hits
                .iter()
                .map(|(k, v)| (k.clone(), J::U(*v)))
                .collect(),
        );
        let mut samples = self.stats.samples.clone();
        if samples.is_empty() {
            samples.push(J::s("(no non-trivial case was generated in this run)"));
        }
        let evidence = J::o(vec![
            ("property_id", J::s(self.property)),
            ("tier", J::s(self.tier.name())),
            ("seed", J::U(self.seed)),
            ("level", J::s("exploration")),
            (
                "coverage",
                J::o(vec![
                    ("evaluations", J::U(self.stats.evaluations)),
                    (
                        "distinct_nontrivial",
                        J::U(self.stats.nontrivial_hashes.len() as u64),
                    ),
                    ("rule", J::s(self.rules.join(" || "))),
                    ("samples", J::A(samples)),
                    ("labels", labels),
                    ("known_hits", known_hits),
                    ("exhaustive_subdomains", J::A(self.stats.exhaustive.clone())),
                    ("replays_run", J::U(self.stats.replays_run)),
                    ("generator_health", J::strs(self.health.clone())),
                    (
                        "src_hash",
                        J::s(option_env!("VERIF_SRC_HASH").unwrap_or("")),
                    ),
                ]),
            ),
            ("assumptions", J::strs(self.assumptions.clone())),
            ("wall_s", J::F((wall * 100.0).round() / 100.0)),
            ("violations", J::U(self.violations.len() as u64)),
        ]);
        let _ = std::fs::create_dir_all("/verif/evidence");
        let path = format!("/verif/evidence/{}.json", self.property);
        if let Err(e) = std::fs::write(&path, evidence.render()) {
            println!("INCONCLUSIVE cannot write {path}: {e}");
            return 2;
        }
        for l in &known_lines {
            println!("{l}");
        }
        println!(
            "property={} tier={} seed={} evaluations={} distinct_nontrivial={} wall_s={:.1}",
            self.property,
            self.tier.name(),
            self.seed,
            self.stats.evaluations,
            self.stats.nontrivial_hashes.len(),
            wall
        );
        if !self.violations.is_empty() {
            for (v, p) in self.violations.iter().zip(replay_paths.iter()) {
                println!(
                    "  check={} clause={} sig={}\n  detail={}",
                    v.check,
                    v.clause,
                    v.sig,
                    truncate(&v.detail, 800)
                );
                println!("VIOLATION property={} replay={}", v.property, p);
            }
            return 1;
        }
        if !self.health.is_empty() {
            for h in &self.health {
                println!(
                    "INCONCLUSIVE property={} generator health: {}",
                    self.property, h
                );
            }
            return 2;
        }
        println!("OK property={}", self.property);
        0
    }
}

pub fn truncate(s: &str, n: usize) -> String {
    if s.len() <= n {
        s.to_string()
    } else {
        let mut end = n;
        while !s.is_char_boundary(end) {
            end -= 1;
        }
        format!("{}…", &s[..end])
    }
}

/// VERIF_SCALE (percent) lets mutation runs use a reduced budget; default 100
pub fn scaled(n: u32) -> u32 {
    let pct: u64 = std::env::var("VERIF_SCALE")
        .ok()
        .and_then(|s| s.parse().ok())
        .unwrap_or(100);
    (((n as u64) * pct) / 100).max(1) as u32
}

/// replay one saved file for sub-check P; returns Some(exit code) if the file belongs to P
pub fn replay_file<C: Codec, P: Prop>(text: &str, known: &[Known]) -> Option<i32> {
    match C::from_str::<ReplayHead>(text) {
        Ok(h) if h.check == P::NAME && h.property == P::ID => {}
        _ => return None,
    }
    let case: P::Case = match C::from_str::<ReplayBody<P::Case>>(text) {
        Ok(c) => c.case,
        Err(e) => {
            println!("INCONCLUSIVE replay does not deserialise: {e}");
            return Some(2);
        }
    };
    let out = run_case::<P>(&case);
    println!("labels={:?}", out.labels);
    match out.fail {
        None => {
            println!("replay passed: property={} check={}", P::ID, P::NAME);
            Some(0)
        }
        Some(f) => {
            println!(
                "replay FAILED: property={} check={} clause={} sig={}\n  {}",
                P::ID,
                P::NAME,
                f.clause,
                f.sig,
                f.detail
            );
            if let Some(k) = match_known(known, &f) {
                println!("KNOWN-FINDING: property={} {} [{}]", P::ID, k.what, k.id);
                return Some(0);
            }
            Some(1)
        }
    }
}

/// wall-clock watchdog: a case that never returns (non-yielding loop) => exit 2, never a VIOLATION
pub fn start_watchdog() {
    std::thread::spawn(|| {
        let limit: u64 = std::env::var("VERIF_WATCHDOG_S")
            .ok()
            .and_then(|s| s.parse().ok())
            .unwrap_or(180);
        let mut last = HEARTBEAT.load(Ordering::Relaxed);
        let mut idle = 0u64;
        loop {
            std::thread::sleep(std::time::Duration::from_secs(5));
            let now = HEARTBEAT.load(Ordering::Relaxed);
            if now == last {
                idle += 5;
                if idle >= limit {
                    // save the cases that never returned, for a human to replay (never reported as a violation:
                    // a wall-clock signal is not a correctness oracle)
                    let mut saved = vec![];
                    if let Ok(r) = RUNNING.lock() {
                        for (_, since, id, name, case) in r.iter() {
                            if since.elapsed().as_secs() + 5 >= limit {
                                let dir = format!("/verif/replays/{id}");
                                let _ = std::fs::create_dir_all(&dir);
                                let path = format!(
                                    "{dir}/stall-{name}-{:016x}.json.stalled",
                                    hash_str(case)
                                );
                                let body = J::o(vec![
                                    ("property", J::s(id.as_str())),
                                    ("check", J::s(name.as_str())),
                                    ("clause", J::s("stall")),
                                    (
                                        "detail",
                                        J::s("the case never returned (wall-clock watchdog)"),
                                    ),
                                    ("case", J::Raw(case.clone())),
                                ]);
                                let _ = std::fs::write(&path, body.render());
                                saved.push(path);
                            }
                        }
                    }
                    println!("INCONCLUSIVE watchdog: no case completed for {limit} s (possible non-yielding loop); stalled cases saved: {:?}", saved);
                    std::process::exit(2);
                }
            } else {
                idle = 0;
                last = now;
            }
        }
    });
}
