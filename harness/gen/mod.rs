pub mod visit;
