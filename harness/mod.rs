//! Verification harness for stepfunc/dnp3 (property-based testing / fuzzing).
//! Compiled INTO the dnp3 crate by hook H1 (`cfg(stepfunc_dnp3_verif)`, set only by /verif/shadow/build.rs),
//! in a non-test build, so the real link/transport layers are the ones exercised.
#![allow(
    missing_docs,
    dead_code,
    unreachable_pub,
    unused_imports,
    clippy::all,
    missing_copy_implementations,
    missing_debug_implementations
)]

pub mod cli;
pub mod engine;
pub mod fuzz;
pub mod gen;
pub mod io;
pub mod json;
pub mod props;
pub mod rig;
pub mod wire;
